-------------------------------- MODULE CLHT --------------------------------
(***************************************************************************)
(* Implementation-shaped machine of internal/xsync (map.go, mapof.go):     *)
(* the CLHT-style table with lock-free readers, per-root-bucket writer     *)
(* lock, cooperative resize (grow / shrink / clear) behind the `resizing`  *)
(* flag and a condition variable, and a size counter.                      *)
(*                                                                         *)
(* One PlusCal label per synchronisation step of the Go code (sync/atomic  *)
(* call, lock operation, cond operation, user-function call); plain reads  *)
(* and writes made under the bucket lock or on a not yet published table   *)
(* are merged into the neighbouring label.  Each label carries the Go      *)
(* site(s) it stands for.  Spin-lock acquisition (Map) is one `await`.     *)
(*                                                                         *)
(* Variant = "Map":   slot = top-hash/presence bit, value pointer, key     *)
(*                    pointer; insert publishes top -> value -> key,       *)
(*                    delete erases top -> value -> key; Load takes an     *)
(*                    atomic snapshot (value, key, re-read value).         *)
(* Variant = "MapOf": slot = meta byte, pointer to an immutable (key,      *)
(*                    value) entry; insert publishes meta -> entry,        *)
(*                    delete erases meta -> entry; Load reads meta, entry. *)
(*                                                                         *)
(* Correctness is checked without linearization-point annotations: every   *)
(* completed call is recorded with its invocation and response instants,   *)
(* and in terminal states LinSearch looks for a total order that respects  *)
(* real-time precedence, gives every call the result MapSem dictates and   *)
(* ends in the physical content of the current table (with the counter     *)
(* equal to its cardinality).                                              *)
(*                                                                         *)
(* Design switches (CONSTANTS) name the rules the properties lean on; the  *)
(* defaults are the code's choices, the alternatives must be refuted by    *)
(* TLC and yield witness schedules that are replayed on the real code.     *)
(***************************************************************************)
EXTENDS MapSem, SequencesExt

CONSTANTS
  Variant,        \* "Map" | "MapOf"
  Threads,        \* set of thread ids
  Keys,           \* scenario keys
  Slots,          \* slots per bucket
  MaxGen,         \* table generations available
  NB0,            \* root buckets of the initial table
  MinNB,          \* minimal table length (Clear / shrink floor)
  HB, HH,         \* HB[k] bucket bits of key k (bucket = HB[k] % nb), HH[k] bucket-local hash
  GrowAt,         \* GrowAt[nb]: grow when an insert finds its chain full and size > GrowAt[nb]
  ShrinkAt,       \* ShrinkAt[nb]: shrink when a delete empties a bucket and size <= ShrinkAt[nb]
  Preload,        \* keys present initially (value = key \o "0")
  Menu,           \* Menu[t]: sequence of calls [op, k, v, fn] of thread t
  \* ---- design switches ----
  CheckOrder,             \* "flag-table" (code) | "table-flag" | "flag-only" | "table-only"
  ClearLoserRetries,      \* TRUE (fixed code): a Clear that loses the resizing CAS retries
  InsertOrder,            \* "value-key" (code) | "key-value"            (Map)
  SnapshotRecheck,        \* TRUE (code): Map.Load re-reads the value pointer
  CopyLocksBuckets,       \* TRUE (code): resize copies each bucket under its lock
  PublishBeforeFlagClear, \* TRUE (code): new table is published before resizing := 0
  SizeTarget,             \* "modified" (code) | "current": table whose counter a writer updates
  CopyRecounts,           \* TRUE (code): the new table's counter is what the copy counted
  FnBeforeRetry,          \* FALSE (code): the user function is called only on a path that commits
  BroadcastOnResizeEnd,   \* TRUE (code)
  UnlockOnNewerTable,     \* TRUE (code): the retry path after `newer table exists` unlocks first
  ResizeRereadsTable,     \* TRUE (code): after winning the resizing CAS the resizer re-reads m.table; FALSE: it trusts the caller's table
  ShrinkGiveUpClearsFlag, \* TRUE (code): a shrink request that finds the table already minimal after winning the CAS clears the flag and wakes the waiters; FALSE: it just returns
  CopySkipsEmptyBuckets,  \* FALSE (code): the copy locks every bucket; TRUE: it skips buckets that look empty without locking them
  ClearChecksCounter,     \* FALSE (code): Clear always resizes; TRUE: it returns early when the table is minimal and the counter reads zero
  LoadOnMissWaits,        \* FALSE (code): a lookup never consults the resize flag; TRUE: on a miss it waits for a resize in progress
  RangeSnapshotsTable,    \* TRUE (code): a traversal walks the one table generation it loaded at the start
  ZeroOnAbsentDelete      \* TRUE (fixed code): Compute(delete) on an absent key returns the zero value on every path

None == "none"
NilK == "nil"
EmptySlot == [pres |-> FALSE, hsh |-> 0, key |-> NilK, val |-> NilV]
EmptyCell == [s \in 1..Slots |-> EmptySlot]
EmptyTab(n) == [nb |-> n, cells |-> [b \in 0..(n - 1) |-> <<EmptyCell>>], lock |-> [b \in 0..(n - 1) |-> None], size |-> 0]

BucketOf(nb, k) == HB[k] % nb

\* plain insertion used by copy and preload: first free slot in the chain, else append a cell
RECURSIVE PutChain(_, _, _, _)
PutChain(ch, k, v, i) ==
  IF i > Len(ch) THEN Append(ch, [EmptyCell EXCEPT ![1] = [pres |-> TRUE, hsh |-> HH[k], key |-> k, val |-> v]])
  ELSE IF \E s \in 1..Slots : ch[i][s].key = NilK
       THEN LET s == CHOOSE s \in 1..Slots : ch[i][s].key = NilK /\ \A r \in 1..Slots : ch[i][r].key = NilK => s <= r
            IN [ch EXCEPT ![i][s] = [pres |-> TRUE, hsh |-> HH[k], key |-> k, val |-> v]]
       ELSE PutChain(ch, k, v, i + 1)

ChainEntries(ch) == {[k |-> ch[i][s].key, v |-> ch[i][s].val] : i \in 1..Len(ch), s \in 1..Slots} \ {[k |-> NilK, v |-> NilV]}
LiveEntries(ch) == {e \in ChainEntries(ch) : e.k # NilK}

RECURSIVE PutAll(_, _)
PutAll(tab, es) ==
  IF es = {} THEN tab
  ELSE LET e == CHOOSE e \in es : TRUE
       IN PutAll([tab EXCEPT !.cells[BucketOf(tab.nb, e.k)] = PutChain(@, e.k, e.v, 1)], es \ {e})

InitTab == [PutAll(EmptyTab(NB0), {[k |-> k, v |-> k \o "0"] : k \in Preload}) EXCEPT !.size = Cardinality(Preload)]
InitM == [m |-> [k \in Preload |-> k \o "0"], bal |-> {}]

\* positions (cell, slot) of the chain under the lock
Pos(ch) == (1..Len(ch)) \X (1..Slots)
FindKey(ch, k) == {p \in Pos(ch) : ch[p[1]][p[2]].key = k}
PosLess(p, q) == p[1] < q[1] \/ (p[1] = q[1] /\ p[2] < q[2])
FirstEmptyPos(ch) == {p \in Pos(ch) : ch[p[1]][p[2]].key = NilK /\ \A q \in Pos(ch) : ch[q[1]][q[2]].key = NilK => (p = q \/ PosLess(p, q))}
\* MapOf finds a free slot by its meta byte, Map by the key pointer; both are cleared by a completed delete
ChainIsEmpty(ch) == \A p \in Pos(ch) : ch[p[1]][p[2]].key = NilK
CellMetaEmpty(c) == \A s \in 1..Slots : ~c[s].pres

(***************************************************************************)
(* Annotation-free linearizability of the completed calls.                 *)
(***************************************************************************)
ResOf(M, c) == MResult(M, c)
Matches(r, o) ==
  CASE o.call.op \in {"Load", "LoadOrStore", "LoadAndStore", "LoadAndDelete", "LoadOrCompute", "Compute"} -> r.rv = o.res.rv /\ r.ok = o.res.ok /\ r.n = o.res.n
    [] OTHER -> TRUE

\* Range is not atomic: it enters the search as two pseudo calls pinned to its invocation and response instants
\* ("rbegin" / "rend"); between them the candidate sets of MapLin are accumulated: cand[k] = values (or AbsentMark)
\* key k has had since the traversal began. At "rend": at most one visit per key, every visited value is a
\* candidate, every key that stayed present throughout was visited.
AbsentMark == "<absent>"
CandOf(cand, k) == IF k \in DOMAIN cand THEN cand[k] ELSE {AbsentMark}
CandPut(cand, k, x) == [y \in (DOMAIN cand) \cup {k} |-> IF y = k THEN CandOf(cand, k) \cup {x} ELSE cand[y]]
NewMapping(Mn, k) == IF k \in DOMAIN Mn.m THEN Mn.m[k] ELSE AbsentMark
RECURSIVE CandPutAll(_, _, _)
CandPutAll(cand, ks, Mn) ==
  IF ks = {} THEN cand ELSE LET k == CHOOSE x \in ks : TRUE IN CandPutAll(CandPut(cand, k, NewMapping(Mn, k)), ks \ {k}, Mn)
TouchedKeys(c, Mo) == IF c.op = "Clear" THEN DOMAIN Mo.m ELSE IF c.k = "" THEN {} ELSE {c.k}
InformAll(act, c, Mo, Mn) == [r \in DOMAIN act |-> CandPutAll(act[r], TouchedKeys(c, Mo), Mn)]
VisitsOK(vis, cand) ==
  /\ Cardinality({vis[i].k : i \in DOMAIN vis}) = Len(vis)
  /\ \A i \in DOMAIN vis : vis[i].v \in (CandOf(cand, vis[i].k) \ {AbsentMark})
  /\ \A k \in DOMAIN cand : AbsentMark \notin cand[k] => \E i \in DOMAIN vis : vis[i].k = k

RECURSIVE LinSearch(_, _, _, _, _)
LinSearch(M, pending, act, finalM, finalSize) ==
  IF pending = {} THEN M.m = finalM /\ finalSize = Cardinality(DOMAIN M.m)
  ELSE \E o \in pending :
         /\ \A p \in pending : p = o \/ p.ri > o.ci \/ (p.ri = o.ci /\ p.ci = o.ci)
         /\ CASE o.call.op = "rbegin" ->
                   LinSearch(M, pending \ {o}, [r \in (DOMAIN act) \cup {o.t} |-> IF r = o.t THEN [k \in DOMAIN M.m |-> {M.m[k]}] ELSE act[r]], finalM, finalSize)
              [] o.call.op = "rend" ->
                   /\ VisitsOK(o.vis, act[o.t])
                   /\ LinSearch(M, pending \ {o}, [r \in (DOMAIN act) \ {o.t} |-> act[r]], finalM, finalSize)
              [] OTHER ->
                   /\ Matches(ResOf(M, o.call), o)
                   /\ LinSearch(MNextCall(M, o.call), pending \ {o}, InformAll(act, o.call, M, MNextCall(M, o.call)), finalM, finalSize)

(* --algorithm clht
variables
  tabs = [g \in 0..MaxGen |-> IF g = 0 THEN InitTab ELSE EmptyTab(1)],
  cur = 0,                 \* m.table
  nextGen = 1,
  resizing = FALSE,        \* m.resizing
  rmu = None,              \* m.resizeMu
  waiters = {},            \* threads blocked in resizeCond.Wait
  clk = 0,                 \* logical instants of invocations and responses
  done = {},               \* completed calls [t, call, res, ci, ri]
  fncalls = [t \in Threads |-> 0],
  lres = [t \in Threads |-> [rv |-> NilV, ok |-> FALSE]],
  cres = [t \in Threads |-> [rv |-> NilV, ok |-> FALSE]],
  rvis = [t \in Threads |-> <<>>],   \* pairs handed to the Range visitor of the call in flight
  pcnt = [t \in Threads |-> 0];   \* program counter into Menu[t]

define
  Op(t) == Menu[t][pcnt[t]]
  PhysM(tab) == LET es == UNION {LiveEntries(tab.cells[b]) : b \in 0..(tab.nb - 1)}
                IN [k \in {e.k : e \in es} |-> (CHOOSE e \in es : e.k = k).v]
  NoDup(tab) == \A b \in 0..(tab.nb - 1), k \in Keys : Cardinality(FindKey(tab.cells[b], k)) <= 1
end define;

\* ---- waitForResize (map.go:504, mapof.go:452) ----
procedure waitForResize()
begin
W1: await rmu = None; rmu := self;                       \* resizeMu.Lock
W2: if resizing then                                      \* LoadInt64(&m.resizing)
W3:   rmu := None; waiters := waiters \cup {self};        \* resizeCond.Wait: enqueue + unlock
W3b:  await self \notin waiters;                          \*   woken by Broadcast
W3c:  await rmu = None; rmu := self; goto W2;             \*   re-lock
    end if;
W4: rmu := None;                                          \* resizeMu.Unlock
    return;
end procedure;

\* ---- resize (map.go:512, mapof.go:460) ----
procedure resize(hint, known)
variables rz_t = 0, rz_new = 0, rz_b = 0, rz_nb = 0, rz_cnt = 0;
begin
RZ0: if hint = "shrink" /\ (MinNB = tabs[known].nb \/ tabs[known].size > ShrinkAt[tabs[known].nb]) then
       return;                                            \* fast path for shrink attempts (sumSize loads)
     end if;
RZ1: if resizing then                                     \* CAS(&m.resizing, 0, 1) lost
       call waitForResize();
RZ1r:  if hint = "clear" /\ ClearLoserRetries then goto RZ1; else return; end if;
     else
       resizing := TRUE;
     end if;
RZ2: rz_t := IF ResizeRereadsTable THEN cur ELSE known;   \* LoadPointer(&m.table)
     rz_nb := IF hint = "grow" THEN 2 * tabs[rz_t].nb ELSE IF hint = "shrink" THEN tabs[rz_t].nb \div 2 ELSE MinNB;
     if hint = "shrink" /\ ~(tabs[rz_t].nb > MinNB /\ tabs[rz_t].size <= ShrinkAt[tabs[rz_t].nb]) then
       if ShrinkGiveUpClearsFlag \/ tabs[rz_t].nb # MinNB then
         goto RZa;                                        \* no need to shrink: wake up all waiters and give up
       else
         goto RZg;                                        \* (alternative design) "already minimal": plain return
       end if;
     else
       rz_new := nextGen; nextGen := nextGen + 1;
       tabs[rz_new] := EmptyTab(rz_nb);                   \* newMapTable (unpublished: plain)
       rz_b := 0; rz_cnt := 0;
     end if;
RZc: while hint # "clear" /\ rz_b < tabs[rz_t].nb do
RZl:   if CopySkipsEmptyBuckets /\ ChainIsEmpty(tabs[rz_t].cells[rz_b]) /\ Len(tabs[rz_t].cells[rz_b]) = 1 then
         rz_b := rz_b + 1; goto RZc;                        \* (alternative design) an empty, chain-less bucket is skipped unlocked
       elsif CopyLocksBuckets then                        \* copyBucket: lockBucket / rootb.mu.Lock
         await tabs[rz_t].lock[rz_b] = None; tabs[rz_t].lock[rz_b] := self;
       end if;
RZu:   tabs[rz_new] := PutAll(tabs[rz_new], LiveEntries(tabs[rz_t].cells[rz_b]))     \* plain copy + unlock
         || tabs[rz_t].lock[rz_b] := IF CopyLocksBuckets THEN None ELSE tabs[rz_t].lock[rz_b];
       rz_cnt := rz_cnt + Cardinality(LiveEntries(tabs[rz_t].cells[rz_b]));
       rz_b := rz_b + 1;
     end while;
     tabs[rz_new].size := IF CopyRecounts THEN rz_cnt ELSE tabs[rz_t].size;        \* addSizePlain
RZ4: if PublishBeforeFlagClear then cur := rz_new; end if;                           \* StorePointer(&m.table)
RZ5: await rmu = None; rmu := self;                       \* resizeMu.Lock
RZ6: resizing := FALSE;                                   \* StoreInt64(&m.resizing, 0)
RZ7: if BroadcastOnResizeEnd then waiters := {}; end if;  \* resizeCond.Broadcast
RZ8: rmu := None;                                         \* resizeMu.Unlock
     if ~PublishBeforeFlagClear then
RZ9:   cur := rz_new;
     end if;
RZr: return;
RZa: await rmu = None; rmu := self;
RZa2: resizing := FALSE;
RZa3: waiters := {};
RZa4: rmu := None; return;
RZg: return;                                              \* the resizing flag stays set
end procedure;

\* ---- lock-free Load (map.go:206, mapof.go:158); result in lres[self] ----
procedure load(lk)
variables l_t = 0, l_b = 0, l_c = 1, l_cand = {}, l_s = 0, l_v = NilV, l_k = NilK;
begin
L1: l_t := cur; l_b := BucketOf(tabs[cur].nb, lk); l_c := 1;                         \* LoadPointer(&m.table)
L2: l_cand := {s \in 1..Slots : tabs[l_t].cells[l_b][l_c][s].pres /\ tabs[l_t].cells[l_b][l_c][s].hsh = HH[lk]};   \* Load(topHashMutex / meta)
L3: while l_cand # {} do
      l_s := CHOOSE s \in l_cand : \A r \in l_cand : s <= r;
      if Variant = "MapOf" then
L3e:    if tabs[l_t].cells[l_b][l_c][l_s].key = lk then                                \* LoadPointer(&b.entries[idx]); e.key == key
          lres[self] := [rv |-> tabs[l_t].cells[l_b][l_c][l_s].val, ok |-> TRUE]; return;
        end if;
      else
L3v:    l_v := tabs[l_t].cells[l_b][l_c][l_s].val;                                     \* LoadPointer(&b.values[i])
L3k:    l_k := tabs[l_t].cells[l_b][l_c][l_s].key;                                     \* LoadPointer(&b.keys[i])
L3c:    if l_k # NilK /\ l_v # NilV /\ l_k = lk then
          if SnapshotRecheck then
L3r:        if tabs[l_t].cells[l_b][l_c][l_s].val = l_v then                           \* re-read the value pointer
              lres[self] := [rv |-> l_v, ok |-> TRUE]; return;
            else
              goto L3v;                                                                \* concurrent update/remove: another spin
            end if;
          else
            lres[self] := [rv |-> l_v, ok |-> TRUE]; return;
          end if;
        end if;
      end if;
L3n:  l_cand := l_cand \ {l_s};
    end while;
L4: if l_c < Len(tabs[l_t].cells[l_b]) then l_c := l_c + 1; goto L2;                   \* LoadPointer(&b.next)
    elsif LoadOnMissWaits /\ resizing then goto L4w;
    else lres[self] := [rv |-> NilV, ok |-> FALSE]; return; end if;
L4w: await ~resizing; goto L1;
end procedure;

\* ---- doCompute (map.go:347, mapof.go:294); result in cres[self] ----
procedure doCompute(kind, dk, dv, dfn)
variables d_t = 0, d_b = 0, d_pos = <<0, 0>>, d_old = NilV, d_r = <<NilV, FALSE>>, d_ins = FALSE, d_fnres = <<NilV, FALSE>>, d_fndone = FALSE, d_left = FALSE;
begin
DC0: if kind \in {"LoadOrStore", "LoadOrCompute"} then           \* read-only fast path
       call load(dk);
DC0r:  if lres[self].ok then cres[self] := [rv |-> lres[self].rv, ok |-> TRUE]; return; end if;
     end if;
DC1: d_t := cur; d_b := BucketOf(tabs[cur].nb, dk);             \* LoadPointer(&m.table)
DC2: await tabs[d_t].lock[d_b] = None; tabs[d_t].lock[d_b] := self;   \* lockBucket / rootb.mu.Lock
DC3: if CheckOrder \in {"flag-table", "flag-only"} then
       if resizing then                                          \* LoadInt64(&m.resizing)
DC3u:    tabs[d_t].lock[d_b] := None; call waitForResize();
DC3g:    goto DC1;
       end if;
     elsif CheckOrder \in {"table-flag", "table-only"} then
       if cur # d_t then
DC3v:    if UnlockOnNewerTable then tabs[d_t].lock[d_b] := None; end if; goto DC1;
       end if;
     end if;
DC4: if CheckOrder = "flag-table" then
       if cur # d_t then                                         \* LoadPointer(&m.table) again
DC4u:    if UnlockOnNewerTable then tabs[d_t].lock[d_b] := None; end if; goto DC1;
       end if;
     elsif CheckOrder = "table-flag" then
       if resizing then
DC4v:    tabs[d_t].lock[d_b] := None; call waitForResize();
DC4g:    goto DC1;
       end if;
     end if;
DC5: \* scan of the chain under the lock (plain reads)
     if FindKey(tabs[d_t].cells[d_b], dk) # {} then
       d_pos := CHOOSE p \in FindKey(tabs[d_t].cells[d_b], dk) : TRUE;
       d_old := tabs[d_t].cells[d_b][d_pos[1]][d_pos[2]].val;
       if kind \in {"LoadOrStore", "LoadOrCompute"} then
         cres[self] := [rv |-> d_old, ok |-> TRUE]; goto DCu;
       else
DF1:     \* valueFn(oldValue, true) - user function, the bucket lock is held
         d_r := IF kind = "Compute" THEN FnResult(dfn, dv, d_old, TRUE) ELSE IF kind \in {"LoadAndDelete", "Delete"} THEN <<d_old, TRUE>> ELSE <<dv, FALSE>>;
         fncalls[self] := fncalls[self] + (IF kind = "Compute" THEN 1 ELSE 0);
         if d_r[2] then goto DD0; else goto DS1; end if;
       end if;
     elsif FirstEmptyPos(tabs[d_t].cells[d_b]) # {} then
       d_pos := CHOOSE p \in FirstEmptyPos(tabs[d_t].cells[d_b]) : TRUE; d_ins := TRUE; goto DF2;
     else
       goto DG0;
     end if;
\* ---- delete ----
DD0: tabs[d_t].cells[d_b][d_pos[1]][d_pos[2]].pres := FALSE;     \* StoreUint64(topHashMutex, erase) / StoreUint64(meta, empty)
DD1: if Variant = "Map" then
       tabs[d_t].cells[d_b][d_pos[1]][d_pos[2]].val := NilV;     \* StorePointer(&b.values[i], nil)
     else
       tabs[d_t].cells[d_b][d_pos[1]][d_pos[2]] := EmptySlot;    \* StorePointer(&b.entries[idx], nil)
     end if;
DD2: if Variant = "Map" then
       tabs[d_t].cells[d_b][d_pos[1]][d_pos[2]] := EmptySlot;    \* StorePointer(&b.keys[i], nil)
     end if;
DDu: d_left := (Variant = "Map" /\ ChainIsEmpty(tabs[d_t].cells[d_b])) \/ (Variant = "MapOf" /\ CellMetaEmpty(tabs[d_t].cells[d_b][d_pos[1]]));   \* leftEmpty (plain reads under the lock)
     tabs[d_t].lock[d_b] := None;                                \* unlock
     cres[self] := [rv |-> d_old, ok |-> (kind # "Compute")];
DDa: if SizeTarget = "modified" then tabs[d_t].size := tabs[d_t].size - 1; else tabs[cur].size := tabs[cur].size - 1; end if;   \* table.addSize(bidx, -1)
DDs: if d_left then
       call resize("shrink", d_t);                               \* might need to shrink the table
     end if;
DDr: return;
\* ---- in-place update ----
DS1: tabs[d_t].cells[d_b][d_pos[1]][d_pos[2]].val := d_r[1];     \* StorePointer(&b.values[i], nvp) / StorePointer(&b.entries[idx], newe)
     cres[self] := IF kind = "Compute" THEN [rv |-> d_r[1], ok |-> TRUE] ELSE [rv |-> d_old, ok |-> TRUE];
     goto DCu;
\* ---- insertion into an existing bucket ----
DF2: d_r := IF kind = "Compute" THEN FnResult(dfn, dv, NilV, FALSE) ELSE IF kind \in {"LoadAndDelete", "Delete"} THEN <<NilV, TRUE>> ELSE <<dv, FALSE>>;
     fncalls[self] := fncalls[self] + (IF kind \in {"Compute", "LoadOrCompute"} THEN 1 ELSE 0);
     if d_r[2] then cres[self] := [rv |-> NilV, ok |-> FALSE]; goto DCu; end if;
DI0: tabs[d_t].cells[d_b][d_pos[1]][d_pos[2]].pres := TRUE       \* StoreUint64(topHashMutex, storeTopHash) / StoreUint64(meta, setByte)
       || tabs[d_t].cells[d_b][d_pos[1]][d_pos[2]].hsh := HH[dk];
DI1: if Variant = "MapOf" then
       tabs[d_t].cells[d_b][d_pos[1]][d_pos[2]].key := dk || tabs[d_t].cells[d_b][d_pos[1]][d_pos[2]].val := d_r[1];   \* StorePointer(&entries[idx], newe)
     elsif InsertOrder = "value-key" then
       tabs[d_t].cells[d_b][d_pos[1]][d_pos[2]].val := d_r[1];   \* StorePointer(&values[i])
     else
       tabs[d_t].cells[d_b][d_pos[1]][d_pos[2]].key := dk;
     end if;
DI2: if Variant = "Map" then
       if InsertOrder = "value-key" then
         tabs[d_t].cells[d_b][d_pos[1]][d_pos[2]].key := dk;     \* StorePointer(&keys[i])
       else
         tabs[d_t].cells[d_b][d_pos[1]][d_pos[2]].val := d_r[1];
       end if;
     end if;
DIu: tabs[d_t].lock[d_b] := None;
     cres[self] := [rv |-> d_r[1], ok |-> (kind = "Compute")];
DIa: if SizeTarget = "modified" then tabs[d_t].size := tabs[d_t].size + 1; else tabs[cur].size := tabs[cur].size + 1; end if;   \* table.addSize(bidx, 1)
     return;
\* ---- chain is full ----
DG0: if FnBeforeRetry /\ ~d_fndone then
       d_fnres := IF kind = "Compute" THEN FnResult(dfn, dv, NilV, FALSE) ELSE IF kind \in {"LoadAndDelete", "Delete"} THEN <<NilV, TRUE>> ELSE <<dv, FALSE>>;
       fncalls[self] := fncalls[self] + (IF kind \in {"Compute", "LoadOrCompute"} THEN 1 ELSE 0);
     end if;
DG1: if tabs[d_t].size > GrowAt[tabs[d_t].nb] then              \* table.sumSize() > growThreshold
DGu:   tabs[d_t].lock[d_b] := None;
       call resize("grow", d_t);
DGg:   goto DC1;
     end if;
DF3: \* insertion into a new bucket
     d_r := IF kind = "Compute" THEN FnResult(dfn, dv, NilV, FALSE) ELSE IF kind \in {"LoadAndDelete", "Delete"} THEN <<NilV, TRUE>> ELSE <<dv, FALSE>>;
     fncalls[self] := fncalls[self] + (IF kind \in {"Compute", "LoadOrCompute"} /\ ~FnBeforeRetry THEN 1 ELSE 0);
     if d_r[2] then cres[self] := [rv |-> (IF ZeroOnAbsentDelete THEN NilV ELSE d_r[1]), ok |-> FALSE]; goto DCu; end if;
DA1: tabs[d_t].cells[d_b] := PutChain(tabs[d_t].cells[d_b], dk, d_r[1], 1);   \* StorePointer(&b.next, newb)
     d_ins := TRUE;
     goto DIu;
DCu: tabs[d_t].lock[d_b] := None;
DCr: return;
end procedure;

\* ---- Range (map.go:642, mapof.go:557): table snapshot; per root bucket lock, copy the chain, unlock, then visit ----
procedure rangeAll()
variables r_t = 0, r_b = 0, r_ents = <<>>, r_i = 1;
begin
R1: r_t := cur; r_b := 0;                                        \* LoadPointer(&m.table)
R2: while r_b < tabs[r_t].nb do
R2l:  await tabs[r_t].lock[r_b] = None; tabs[r_t].lock[r_b] := self;          \* lockBucket / rootb.mu.Lock
R2u:  r_ents := SetToSeq(LiveEntries(tabs[r_t].cells[r_b])); r_i := 1;       \* copy entries (plain), unlock
      tabs[r_t].lock[r_b] := None;
R3:   while r_i <= Len(r_ents) do                                             \* f(k, v) - user function, no lock held
        rvis[self] := Append(rvis[self], r_ents[r_i]);
        r_i := r_i + 1;
      end while;
      r_b := r_b + 1;
      if ~RangeSnapshotsTable then r_t := cur; end if;
    end while;
    return;
end procedure;

\* ---- Clear / Size ----
procedure clearMap()
variables c_t = 0;
begin
CL1: c_t := cur;                                                  \* LoadPointer(&m.table)
     if ClearChecksCounter /\ tabs[cur].nb = MinNB /\ tabs[cur].size = 0 then
       goto CL2;                                                  \* (alternative design) "nothing to clear"
     else
       call resize("clear", c_t);
     end if;
CL2: return;
end procedure;

fair process thr \in Threads
variables ci = 0;
begin
Loop: while pcnt[self] < Len(Menu[self]) do
        pcnt[self] := pcnt[self] + 1;
        clk := clk + 1; ci := clk; fncalls[self] := 0;
Disp:   if Op(self).op = "Load" then call load(Op(self).k);
        elsif Op(self).op = "Clear" then call clearMap();
        elsif Op(self).op = "Range" then rvis[self] := <<>>; call rangeAll();
        elsif Op(self).op = "Size" then cres[self] := [rv |-> NilV, ok |-> FALSE];
        else call doCompute(Op(self).op, Op(self).k, Op(self).v, Op(self).fn); end if;
Fin:    clk := clk + 1;
        if Op(self).op = "Range" then
          done := done \cup {[t |-> self, call |-> [Op(self) EXCEPT !.op = "rbegin"], ci |-> ci, ri |-> ci, vis |-> <<>>, res |-> [rv |-> NilV, ok |-> FALSE, n |-> 0]],
                             [t |-> self, call |-> [Op(self) EXCEPT !.op = "rend"], ci |-> clk, ri |-> clk, vis |-> rvis[self], res |-> [rv |-> NilV, ok |-> FALSE, n |-> 0]]};
        else
        done := done \cup {[t |-> self, call |-> Op(self), ci |-> ci, ri |-> clk, vis |-> <<>>,
                            res |-> [rv |-> (IF Op(self).op = "Load" THEN lres[self].rv ELSE cres[self].rv),
                                     ok |-> (IF Op(self).op = "Load" THEN lres[self].ok ELSE cres[self].ok),
                                     n |-> (IF Op(self).op \in {"Compute", "LoadOrCompute"} THEN fncalls[self] ELSE 0)]]};
        end if;
      end while;
end process;
end algorithm; *)
\* BEGIN TRANSLATION
CONSTANT defaultInitValue
VARIABLES pc, tabs, cur, nextGen, resizing, rmu, waiters, clk, done, fncalls, 
          lres, cres, rvis, pcnt, stack

(* define statement *)
Op(t) == Menu[t][pcnt[t]]
PhysM(tab) == LET es == UNION {LiveEntries(tab.cells[b]) : b \in 0..(tab.nb - 1)}
              IN [k \in {e.k : e \in es} |-> (CHOOSE e \in es : e.k = k).v]
NoDup(tab) == \A b \in 0..(tab.nb - 1), k \in Keys : Cardinality(FindKey(tab.cells[b], k)) <= 1

VARIABLES hint, known, rz_t, rz_new, rz_b, rz_nb, rz_cnt, lk, l_t, l_b, l_c, 
          l_cand, l_s, l_v, l_k, kind, dk, dv, dfn, d_t, d_b, d_pos, d_old, 
          d_r, d_ins, d_fnres, d_fndone, d_left, r_t, r_b, r_ents, r_i, c_t, 
          ci

vars == << pc, tabs, cur, nextGen, resizing, rmu, waiters, clk, done, fncalls, 
           lres, cres, rvis, pcnt, stack, hint, known, rz_t, rz_new, rz_b, 
           rz_nb, rz_cnt, lk, l_t, l_b, l_c, l_cand, l_s, l_v, l_k, kind, dk, 
           dv, dfn, d_t, d_b, d_pos, d_old, d_r, d_ins, d_fnres, d_fndone, 
           d_left, r_t, r_b, r_ents, r_i, c_t, ci >>

ProcSet == (Threads)

Init == (* Global variables *)
        /\ tabs = [g \in 0..MaxGen |-> IF g = 0 THEN InitTab ELSE EmptyTab(1)]
        /\ cur = 0
        /\ nextGen = 1
        /\ resizing = FALSE
        /\ rmu = None
        /\ waiters = {}
        /\ clk = 0
        /\ done = {}
        /\ fncalls = [t \in Threads |-> 0]
        /\ lres = [t \in Threads |-> [rv |-> NilV, ok |-> FALSE]]
        /\ cres = [t \in Threads |-> [rv |-> NilV, ok |-> FALSE]]
        /\ rvis = [t \in Threads |-> <<>>]
        /\ pcnt = [t \in Threads |-> 0]
        (* Procedure resize *)
        /\ hint = [ self \in ProcSet |-> defaultInitValue]
        /\ known = [ self \in ProcSet |-> defaultInitValue]
        /\ rz_t = [ self \in ProcSet |-> 0]
        /\ rz_new = [ self \in ProcSet |-> 0]
        /\ rz_b = [ self \in ProcSet |-> 0]
        /\ rz_nb = [ self \in ProcSet |-> 0]
        /\ rz_cnt = [ self \in ProcSet |-> 0]
        (* Procedure load *)
        /\ lk = [ self \in ProcSet |-> defaultInitValue]
        /\ l_t = [ self \in ProcSet |-> 0]
        /\ l_b = [ self \in ProcSet |-> 0]
        /\ l_c = [ self \in ProcSet |-> 1]
        /\ l_cand = [ self \in ProcSet |-> {}]
        /\ l_s = [ self \in ProcSet |-> 0]
        /\ l_v = [ self \in ProcSet |-> NilV]
        /\ l_k = [ self \in ProcSet |-> NilK]
        (* Procedure doCompute *)
        /\ kind = [ self \in ProcSet |-> defaultInitValue]
        /\ dk = [ self \in ProcSet |-> defaultInitValue]
        /\ dv = [ self \in ProcSet |-> defaultInitValue]
        /\ dfn = [ self \in ProcSet |-> defaultInitValue]
        /\ d_t = [ self \in ProcSet |-> 0]
        /\ d_b = [ self \in ProcSet |-> 0]
        /\ d_pos = [ self \in ProcSet |-> <<0, 0>>]
        /\ d_old = [ self \in ProcSet |-> NilV]
        /\ d_r = [ self \in ProcSet |-> <<NilV, FALSE>>]
        /\ d_ins = [ self \in ProcSet |-> FALSE]
        /\ d_fnres = [ self \in ProcSet |-> <<NilV, FALSE>>]
        /\ d_fndone = [ self \in ProcSet |-> FALSE]
        /\ d_left = [ self \in ProcSet |-> FALSE]
        (* Procedure rangeAll *)
        /\ r_t = [ self \in ProcSet |-> 0]
        /\ r_b = [ self \in ProcSet |-> 0]
        /\ r_ents = [ self \in ProcSet |-> <<>>]
        /\ r_i = [ self \in ProcSet |-> 1]
        (* Procedure clearMap *)
        /\ c_t = [ self \in ProcSet |-> 0]
        (* Process thr *)
        /\ ci = [self \in Threads |-> 0]
        /\ stack = [self \in ProcSet |-> << >>]
        /\ pc = [self \in ProcSet |-> "Loop"]

W1(self) == /\ pc[self] = "W1"
            /\ rmu = None
            /\ rmu' = self
            /\ pc' = [pc EXCEPT ![self] = "W2"]
            /\ UNCHANGED << tabs, cur, nextGen, resizing, waiters, clk, done, 
                            fncalls, lres, cres, rvis, pcnt, stack, hint, 
                            known, rz_t, rz_new, rz_b, rz_nb, rz_cnt, lk, l_t, 
                            l_b, l_c, l_cand, l_s, l_v, l_k, kind, dk, dv, dfn, 
                            d_t, d_b, d_pos, d_old, d_r, d_ins, d_fnres, 
                            d_fndone, d_left, r_t, r_b, r_ents, r_i, c_t, ci >>

W2(self) == /\ pc[self] = "W2"
            /\ IF resizing
                  THEN /\ pc' = [pc EXCEPT ![self] = "W3"]
                  ELSE /\ pc' = [pc EXCEPT ![self] = "W4"]
            /\ UNCHANGED << tabs, cur, nextGen, resizing, rmu, waiters, clk, 
                            done, fncalls, lres, cres, rvis, pcnt, stack, hint, 
                            known, rz_t, rz_new, rz_b, rz_nb, rz_cnt, lk, l_t, 
                            l_b, l_c, l_cand, l_s, l_v, l_k, kind, dk, dv, dfn, 
                            d_t, d_b, d_pos, d_old, d_r, d_ins, d_fnres, 
                            d_fndone, d_left, r_t, r_b, r_ents, r_i, c_t, ci >>

W3(self) == /\ pc[self] = "W3"
            /\ rmu' = None
            /\ waiters' = (waiters \cup {self})
            /\ pc' = [pc EXCEPT ![self] = "W3b"]
            /\ UNCHANGED << tabs, cur, nextGen, resizing, clk, done, fncalls, 
                            lres, cres, rvis, pcnt, stack, hint, known, rz_t, 
                            rz_new, rz_b, rz_nb, rz_cnt, lk, l_t, l_b, l_c, 
                            l_cand, l_s, l_v, l_k, kind, dk, dv, dfn, d_t, d_b, 
                            d_pos, d_old, d_r, d_ins, d_fnres, d_fndone, 
                            d_left, r_t, r_b, r_ents, r_i, c_t, ci >>

W3b(self) == /\ pc[self] = "W3b"
             /\ self \notin waiters
             /\ pc' = [pc EXCEPT ![self] = "W3c"]
             /\ UNCHANGED << tabs, cur, nextGen, resizing, rmu, waiters, clk, 
                             done, fncalls, lres, cres, rvis, pcnt, stack, 
                             hint, known, rz_t, rz_new, rz_b, rz_nb, rz_cnt, 
                             lk, l_t, l_b, l_c, l_cand, l_s, l_v, l_k, kind, 
                             dk, dv, dfn, d_t, d_b, d_pos, d_old, d_r, d_ins, 
                             d_fnres, d_fndone, d_left, r_t, r_b, r_ents, r_i, 
                             c_t, ci >>

W3c(self) == /\ pc[self] = "W3c"
             /\ rmu = None
             /\ rmu' = self
             /\ pc' = [pc EXCEPT ![self] = "W2"]
             /\ UNCHANGED << tabs, cur, nextGen, resizing, waiters, clk, done, 
                             fncalls, lres, cres, rvis, pcnt, stack, hint, 
                             known, rz_t, rz_new, rz_b, rz_nb, rz_cnt, lk, l_t, 
                             l_b, l_c, l_cand, l_s, l_v, l_k, kind, dk, dv, 
                             dfn, d_t, d_b, d_pos, d_old, d_r, d_ins, d_fnres, 
                             d_fndone, d_left, r_t, r_b, r_ents, r_i, c_t, ci >>

W4(self) == /\ pc[self] = "W4"
            /\ rmu' = None
            /\ pc' = [pc EXCEPT ![self] = Head(stack[self]).pc]
            /\ stack' = [stack EXCEPT ![self] = Tail(stack[self])]
            /\ UNCHANGED << tabs, cur, nextGen, resizing, waiters, clk, done, 
                            fncalls, lres, cres, rvis, pcnt, hint, known, rz_t, 
                            rz_new, rz_b, rz_nb, rz_cnt, lk, l_t, l_b, l_c, 
                            l_cand, l_s, l_v, l_k, kind, dk, dv, dfn, d_t, d_b, 
                            d_pos, d_old, d_r, d_ins, d_fnres, d_fndone, 
                            d_left, r_t, r_b, r_ents, r_i, c_t, ci >>

waitForResize(self) == W1(self) \/ W2(self) \/ W3(self) \/ W3b(self)
                          \/ W3c(self) \/ W4(self)

RZ0(self) == /\ pc[self] = "RZ0"
             /\ IF hint[self] = "shrink" /\ (MinNB = tabs[known[self]].nb \/ tabs[known[self]].size > ShrinkAt[tabs[known[self]].nb])
                   THEN /\ pc' = [pc EXCEPT ![self] = Head(stack[self]).pc]
                        /\ rz_t' = [rz_t EXCEPT ![self] = Head(stack[self]).rz_t]
                        /\ rz_new' = [rz_new EXCEPT ![self] = Head(stack[self]).rz_new]
                        /\ rz_b' = [rz_b EXCEPT ![self] = Head(stack[self]).rz_b]
                        /\ rz_nb' = [rz_nb EXCEPT ![self] = Head(stack[self]).rz_nb]
                        /\ rz_cnt' = [rz_cnt EXCEPT ![self] = Head(stack[self]).rz_cnt]
                        /\ hint' = [hint EXCEPT ![self] = Head(stack[self]).hint]
                        /\ known' = [known EXCEPT ![self] = Head(stack[self]).known]
                        /\ stack' = [stack EXCEPT ![self] = Tail(stack[self])]
                   ELSE /\ pc' = [pc EXCEPT ![self] = "RZ1"]
                        /\ UNCHANGED << stack, hint, known, rz_t, rz_new, rz_b, 
                                        rz_nb, rz_cnt >>
             /\ UNCHANGED << tabs, cur, nextGen, resizing, rmu, waiters, clk, 
                             done, fncalls, lres, cres, rvis, pcnt, lk, l_t, 
                             l_b, l_c, l_cand, l_s, l_v, l_k, kind, dk, dv, 
                             dfn, d_t, d_b, d_pos, d_old, d_r, d_ins, d_fnres, 
                             d_fndone, d_left, r_t, r_b, r_ents, r_i, c_t, ci >>

RZ1(self) == /\ pc[self] = "RZ1"
             /\ IF resizing
                   THEN /\ stack' = [stack EXCEPT ![self] = << [ procedure |->  "waitForResize",
                                                                 pc        |->  "RZ1r" ] >>
                                                             \o stack[self]]
                        /\ pc' = [pc EXCEPT ![self] = "W1"]
                        /\ UNCHANGED resizing
                   ELSE /\ resizing' = TRUE
                        /\ pc' = [pc EXCEPT ![self] = "RZ2"]
                        /\ stack' = stack
             /\ UNCHANGED << tabs, cur, nextGen, rmu, waiters, clk, done, 
                             fncalls, lres, cres, rvis, pcnt, hint, known, 
                             rz_t, rz_new, rz_b, rz_nb, rz_cnt, lk, l_t, l_b, 
                             l_c, l_cand, l_s, l_v, l_k, kind, dk, dv, dfn, 
                             d_t, d_b, d_pos, d_old, d_r, d_ins, d_fnres, 
                             d_fndone, d_left, r_t, r_b, r_ents, r_i, c_t, ci >>

RZ1r(self) == /\ pc[self] = "RZ1r"
              /\ IF hint[self] = "clear" /\ ClearLoserRetries
                    THEN /\ pc' = [pc EXCEPT ![self] = "RZ1"]
                         /\ UNCHANGED << stack, hint, known, rz_t, rz_new, 
                                         rz_b, rz_nb, rz_cnt >>
                    ELSE /\ pc' = [pc EXCEPT ![self] = Head(stack[self]).pc]
                         /\ rz_t' = [rz_t EXCEPT ![self] = Head(stack[self]).rz_t]
                         /\ rz_new' = [rz_new EXCEPT ![self] = Head(stack[self]).rz_new]
                         /\ rz_b' = [rz_b EXCEPT ![self] = Head(stack[self]).rz_b]
                         /\ rz_nb' = [rz_nb EXCEPT ![self] = Head(stack[self]).rz_nb]
                         /\ rz_cnt' = [rz_cnt EXCEPT ![self] = Head(stack[self]).rz_cnt]
                         /\ hint' = [hint EXCEPT ![self] = Head(stack[self]).hint]
                         /\ known' = [known EXCEPT ![self] = Head(stack[self]).known]
                         /\ stack' = [stack EXCEPT ![self] = Tail(stack[self])]
              /\ UNCHANGED << tabs, cur, nextGen, resizing, rmu, waiters, clk, 
                              done, fncalls, lres, cres, rvis, pcnt, lk, l_t, 
                              l_b, l_c, l_cand, l_s, l_v, l_k, kind, dk, dv, 
                              dfn, d_t, d_b, d_pos, d_old, d_r, d_ins, d_fnres, 
                              d_fndone, d_left, r_t, r_b, r_ents, r_i, c_t, ci >>

RZ2(self) == /\ pc[self] = "RZ2"
             /\ rz_t' = [rz_t EXCEPT ![self] = IF ResizeRereadsTable THEN cur ELSE known[self]]
             /\ rz_nb' = [rz_nb EXCEPT ![self] = IF hint[self] = "grow" THEN 2 * tabs[rz_t'[self]].nb ELSE IF hint[self] = "shrink" THEN tabs[rz_t'[self]].nb \div 2 ELSE MinNB]
             /\ IF hint[self] = "shrink" /\ ~(tabs[rz_t'[self]].nb > MinNB /\ tabs[rz_t'[self]].size <= ShrinkAt[tabs[rz_t'[self]].nb])
                   THEN /\ IF ShrinkGiveUpClearsFlag \/ tabs[rz_t'[self]].nb # MinNB
                              THEN /\ pc' = [pc EXCEPT ![self] = "RZa"]
                              ELSE /\ pc' = [pc EXCEPT ![self] = "RZg"]
                        /\ UNCHANGED << tabs, nextGen, rz_new, rz_b, rz_cnt >>
                   ELSE /\ rz_new' = [rz_new EXCEPT ![self] = nextGen]
                        /\ nextGen' = nextGen + 1
                        /\ tabs' = [tabs EXCEPT ![rz_new'[self]] = EmptyTab(rz_nb'[self])]
                        /\ rz_b' = [rz_b EXCEPT ![self] = 0]
                        /\ rz_cnt' = [rz_cnt EXCEPT ![self] = 0]
                        /\ pc' = [pc EXCEPT ![self] = "RZc"]
             /\ UNCHANGED << cur, resizing, rmu, waiters, clk, done, fncalls, 
                             lres, cres, rvis, pcnt, stack, hint, known, lk, 
                             l_t, l_b, l_c, l_cand, l_s, l_v, l_k, kind, dk, 
                             dv, dfn, d_t, d_b, d_pos, d_old, d_r, d_ins, 
                             d_fnres, d_fndone, d_left, r_t, r_b, r_ents, r_i, 
                             c_t, ci >>

RZc(self) == /\ pc[self] = "RZc"
             /\ IF hint[self] # "clear" /\ rz_b[self] < tabs[rz_t[self]].nb
                   THEN /\ pc' = [pc EXCEPT ![self] = "RZl"]
                        /\ tabs' = tabs
                   ELSE /\ tabs' = [tabs EXCEPT ![rz_new[self]].size = IF CopyRecounts THEN rz_cnt[self] ELSE tabs[rz_t[self]].size]
                        /\ pc' = [pc EXCEPT ![self] = "RZ4"]
             /\ UNCHANGED << cur, nextGen, resizing, rmu, waiters, clk, done, 
                             fncalls, lres, cres, rvis, pcnt, stack, hint, 
                             known, rz_t, rz_new, rz_b, rz_nb, rz_cnt, lk, l_t, 
                             l_b, l_c, l_cand, l_s, l_v, l_k, kind, dk, dv, 
                             dfn, d_t, d_b, d_pos, d_old, d_r, d_ins, d_fnres, 
                             d_fndone, d_left, r_t, r_b, r_ents, r_i, c_t, ci >>

RZl(self) == /\ pc[self] = "RZl"
             /\ IF CopySkipsEmptyBuckets /\ ChainIsEmpty(tabs[rz_t[self]].cells[rz_b[self]]) /\ Len(tabs[rz_t[self]].cells[rz_b[self]]) = 1
                   THEN /\ rz_b' = [rz_b EXCEPT ![self] = rz_b[self] + 1]
                        /\ pc' = [pc EXCEPT ![self] = "RZc"]
                        /\ tabs' = tabs
                   ELSE /\ IF CopyLocksBuckets
                              THEN /\ tabs[rz_t[self]].lock[rz_b[self]] = None
                                   /\ tabs' = [tabs EXCEPT ![rz_t[self]].lock[rz_b[self]] = self]
                              ELSE /\ TRUE
                                   /\ tabs' = tabs
                        /\ pc' = [pc EXCEPT ![self] = "RZu"]
                        /\ rz_b' = rz_b
             /\ UNCHANGED << cur, nextGen, resizing, rmu, waiters, clk, done, 
                             fncalls, lres, cres, rvis, pcnt, stack, hint, 
                             known, rz_t, rz_new, rz_nb, rz_cnt, lk, l_t, l_b, 
                             l_c, l_cand, l_s, l_v, l_k, kind, dk, dv, dfn, 
                             d_t, d_b, d_pos, d_old, d_r, d_ins, d_fnres, 
                             d_fndone, d_left, r_t, r_b, r_ents, r_i, c_t, ci >>

RZu(self) == /\ pc[self] = "RZu"
             /\ tabs' = [tabs EXCEPT ![rz_new[self]] = PutAll(tabs[rz_new[self]], LiveEntries(tabs[rz_t[self]].cells[rz_b[self]])),
                                     ![rz_t[self]].lock[rz_b[self]] = IF CopyLocksBuckets THEN None ELSE tabs[rz_t[self]].lock[rz_b[self]]]
             /\ rz_cnt' = [rz_cnt EXCEPT ![self] = rz_cnt[self] + Cardinality(LiveEntries(tabs'[rz_t[self]].cells[rz_b[self]]))]
             /\ rz_b' = [rz_b EXCEPT ![self] = rz_b[self] + 1]
             /\ pc' = [pc EXCEPT ![self] = "RZc"]
             /\ UNCHANGED << cur, nextGen, resizing, rmu, waiters, clk, done, 
                             fncalls, lres, cres, rvis, pcnt, stack, hint, 
                             known, rz_t, rz_new, rz_nb, lk, l_t, l_b, l_c, 
                             l_cand, l_s, l_v, l_k, kind, dk, dv, dfn, d_t, 
                             d_b, d_pos, d_old, d_r, d_ins, d_fnres, d_fndone, 
                             d_left, r_t, r_b, r_ents, r_i, c_t, ci >>

RZ4(self) == /\ pc[self] = "RZ4"
             /\ IF PublishBeforeFlagClear
                   THEN /\ cur' = rz_new[self]
                   ELSE /\ TRUE
                        /\ cur' = cur
             /\ pc' = [pc EXCEPT ![self] = "RZ5"]
             /\ UNCHANGED << tabs, nextGen, resizing, rmu, waiters, clk, done, 
                             fncalls, lres, cres, rvis, pcnt, stack, hint, 
                             known, rz_t, rz_new, rz_b, rz_nb, rz_cnt, lk, l_t, 
                             l_b, l_c, l_cand, l_s, l_v, l_k, kind, dk, dv, 
                             dfn, d_t, d_b, d_pos, d_old, d_r, d_ins, d_fnres, 
                             d_fndone, d_left, r_t, r_b, r_ents, r_i, c_t, ci >>

RZ5(self) == /\ pc[self] = "RZ5"
             /\ rmu = None
             /\ rmu' = self
             /\ pc' = [pc EXCEPT ![self] = "RZ6"]
             /\ UNCHANGED << tabs, cur, nextGen, resizing, waiters, clk, done, 
                             fncalls, lres, cres, rvis, pcnt, stack, hint, 
                             known, rz_t, rz_new, rz_b, rz_nb, rz_cnt, lk, l_t, 
                             l_b, l_c, l_cand, l_s, l_v, l_k, kind, dk, dv, 
                             dfn, d_t, d_b, d_pos, d_old, d_r, d_ins, d_fnres, 
                             d_fndone, d_left, r_t, r_b, r_ents, r_i, c_t, ci >>

RZ6(self) == /\ pc[self] = "RZ6"
             /\ resizing' = FALSE
             /\ pc' = [pc EXCEPT ![self] = "RZ7"]
             /\ UNCHANGED << tabs, cur, nextGen, rmu, waiters, clk, done, 
                             fncalls, lres, cres, rvis, pcnt, stack, hint, 
                             known, rz_t, rz_new, rz_b, rz_nb, rz_cnt, lk, l_t, 
                             l_b, l_c, l_cand, l_s, l_v, l_k, kind, dk, dv, 
                             dfn, d_t, d_b, d_pos, d_old, d_r, d_ins, d_fnres, 
                             d_fndone, d_left, r_t, r_b, r_ents, r_i, c_t, ci >>

RZ7(self) == /\ pc[self] = "RZ7"
             /\ IF BroadcastOnResizeEnd
                   THEN /\ waiters' = {}
                   ELSE /\ TRUE
                        /\ UNCHANGED waiters
             /\ pc' = [pc EXCEPT ![self] = "RZ8"]
             /\ UNCHANGED << tabs, cur, nextGen, resizing, rmu, clk, done, 
                             fncalls, lres, cres, rvis, pcnt, stack, hint, 
                             known, rz_t, rz_new, rz_b, rz_nb, rz_cnt, lk, l_t, 
                             l_b, l_c, l_cand, l_s, l_v, l_k, kind, dk, dv, 
                             dfn, d_t, d_b, d_pos, d_old, d_r, d_ins, d_fnres, 
                             d_fndone, d_left, r_t, r_b, r_ents, r_i, c_t, ci >>

RZ8(self) == /\ pc[self] = "RZ8"
             /\ rmu' = None
             /\ IF ~PublishBeforeFlagClear
                   THEN /\ pc' = [pc EXCEPT ![self] = "RZ9"]
                   ELSE /\ pc' = [pc EXCEPT ![self] = "RZr"]
             /\ UNCHANGED << tabs, cur, nextGen, resizing, waiters, clk, done, 
                             fncalls, lres, cres, rvis, pcnt, stack, hint, 
                             known, rz_t, rz_new, rz_b, rz_nb, rz_cnt, lk, l_t, 
                             l_b, l_c, l_cand, l_s, l_v, l_k, kind, dk, dv, 
                             dfn, d_t, d_b, d_pos, d_old, d_r, d_ins, d_fnres, 
                             d_fndone, d_left, r_t, r_b, r_ents, r_i, c_t, ci >>

RZ9(self) == /\ pc[self] = "RZ9"
             /\ cur' = rz_new[self]
             /\ pc' = [pc EXCEPT ![self] = "RZr"]
             /\ UNCHANGED << tabs, nextGen, resizing, rmu, waiters, clk, done, 
                             fncalls, lres, cres, rvis, pcnt, stack, hint, 
                             known, rz_t, rz_new, rz_b, rz_nb, rz_cnt, lk, l_t, 
                             l_b, l_c, l_cand, l_s, l_v, l_k, kind, dk, dv, 
                             dfn, d_t, d_b, d_pos, d_old, d_r, d_ins, d_fnres, 
                             d_fndone, d_left, r_t, r_b, r_ents, r_i, c_t, ci >>

RZr(self) == /\ pc[self] = "RZr"
             /\ pc' = [pc EXCEPT ![self] = Head(stack[self]).pc]
             /\ rz_t' = [rz_t EXCEPT ![self] = Head(stack[self]).rz_t]
             /\ rz_new' = [rz_new EXCEPT ![self] = Head(stack[self]).rz_new]
             /\ rz_b' = [rz_b EXCEPT ![self] = Head(stack[self]).rz_b]
             /\ rz_nb' = [rz_nb EXCEPT ![self] = Head(stack[self]).rz_nb]
             /\ rz_cnt' = [rz_cnt EXCEPT ![self] = Head(stack[self]).rz_cnt]
             /\ hint' = [hint EXCEPT ![self] = Head(stack[self]).hint]
             /\ known' = [known EXCEPT ![self] = Head(stack[self]).known]
             /\ stack' = [stack EXCEPT ![self] = Tail(stack[self])]
             /\ UNCHANGED << tabs, cur, nextGen, resizing, rmu, waiters, clk, 
                             done, fncalls, lres, cres, rvis, pcnt, lk, l_t, 
                             l_b, l_c, l_cand, l_s, l_v, l_k, kind, dk, dv, 
                             dfn, d_t, d_b, d_pos, d_old, d_r, d_ins, d_fnres, 
                             d_fndone, d_left, r_t, r_b, r_ents, r_i, c_t, ci >>

RZa(self) == /\ pc[self] = "RZa"
             /\ rmu = None
             /\ rmu' = self
             /\ pc' = [pc EXCEPT ![self] = "RZa2"]
             /\ UNCHANGED << tabs, cur, nextGen, resizing, waiters, clk, done, 
                             fncalls, lres, cres, rvis, pcnt, stack, hint, 
                             known, rz_t, rz_new, rz_b, rz_nb, rz_cnt, lk, l_t, 
                             l_b, l_c, l_cand, l_s, l_v, l_k, kind, dk, dv, 
                             dfn, d_t, d_b, d_pos, d_old, d_r, d_ins, d_fnres, 
                             d_fndone, d_left, r_t, r_b, r_ents, r_i, c_t, ci >>

RZa2(self) == /\ pc[self] = "RZa2"
              /\ resizing' = FALSE
              /\ pc' = [pc EXCEPT ![self] = "RZa3"]
              /\ UNCHANGED << tabs, cur, nextGen, rmu, waiters, clk, done, 
                              fncalls, lres, cres, rvis, pcnt, stack, hint, 
                              known, rz_t, rz_new, rz_b, rz_nb, rz_cnt, lk, 
                              l_t, l_b, l_c, l_cand, l_s, l_v, l_k, kind, dk, 
                              dv, dfn, d_t, d_b, d_pos, d_old, d_r, d_ins, 
                              d_fnres, d_fndone, d_left, r_t, r_b, r_ents, r_i, 
                              c_t, ci >>

RZa3(self) == /\ pc[self] = "RZa3"
              /\ waiters' = {}
              /\ pc' = [pc EXCEPT ![self] = "RZa4"]
              /\ UNCHANGED << tabs, cur, nextGen, resizing, rmu, clk, done, 
                              fncalls, lres, cres, rvis, pcnt, stack, hint, 
                              known, rz_t, rz_new, rz_b, rz_nb, rz_cnt, lk, 
                              l_t, l_b, l_c, l_cand, l_s, l_v, l_k, kind, dk, 
                              dv, dfn, d_t, d_b, d_pos, d_old, d_r, d_ins, 
                              d_fnres, d_fndone, d_left, r_t, r_b, r_ents, r_i, 
                              c_t, ci >>

RZa4(self) == /\ pc[self] = "RZa4"
              /\ rmu' = None
              /\ pc' = [pc EXCEPT ![self] = Head(stack[self]).pc]
              /\ rz_t' = [rz_t EXCEPT ![self] = Head(stack[self]).rz_t]
              /\ rz_new' = [rz_new EXCEPT ![self] = Head(stack[self]).rz_new]
              /\ rz_b' = [rz_b EXCEPT ![self] = Head(stack[self]).rz_b]
              /\ rz_nb' = [rz_nb EXCEPT ![self] = Head(stack[self]).rz_nb]
              /\ rz_cnt' = [rz_cnt EXCEPT ![self] = Head(stack[self]).rz_cnt]
              /\ hint' = [hint EXCEPT ![self] = Head(stack[self]).hint]
              /\ known' = [known EXCEPT ![self] = Head(stack[self]).known]
              /\ stack' = [stack EXCEPT ![self] = Tail(stack[self])]
              /\ UNCHANGED << tabs, cur, nextGen, resizing, waiters, clk, done, 
                              fncalls, lres, cres, rvis, pcnt, lk, l_t, l_b, 
                              l_c, l_cand, l_s, l_v, l_k, kind, dk, dv, dfn, 
                              d_t, d_b, d_pos, d_old, d_r, d_ins, d_fnres, 
                              d_fndone, d_left, r_t, r_b, r_ents, r_i, c_t, ci >>

RZg(self) == /\ pc[self] = "RZg"
             /\ pc' = [pc EXCEPT ![self] = Head(stack[self]).pc]
             /\ rz_t' = [rz_t EXCEPT ![self] = Head(stack[self]).rz_t]
             /\ rz_new' = [rz_new EXCEPT ![self] = Head(stack[self]).rz_new]
             /\ rz_b' = [rz_b EXCEPT ![self] = Head(stack[self]).rz_b]
             /\ rz_nb' = [rz_nb EXCEPT ![self] = Head(stack[self]).rz_nb]
             /\ rz_cnt' = [rz_cnt EXCEPT ![self] = Head(stack[self]).rz_cnt]
             /\ hint' = [hint EXCEPT ![self] = Head(stack[self]).hint]
             /\ known' = [known EXCEPT ![self] = Head(stack[self]).known]
             /\ stack' = [stack EXCEPT ![self] = Tail(stack[self])]
             /\ UNCHANGED << tabs, cur, nextGen, resizing, rmu, waiters, clk, 
                             done, fncalls, lres, cres, rvis, pcnt, lk, l_t, 
                             l_b, l_c, l_cand, l_s, l_v, l_k, kind, dk, dv, 
                             dfn, d_t, d_b, d_pos, d_old, d_r, d_ins, d_fnres, 
                             d_fndone, d_left, r_t, r_b, r_ents, r_i, c_t, ci >>

resize(self) == RZ0(self) \/ RZ1(self) \/ RZ1r(self) \/ RZ2(self)
                   \/ RZc(self) \/ RZl(self) \/ RZu(self) \/ RZ4(self)
                   \/ RZ5(self) \/ RZ6(self) \/ RZ7(self) \/ RZ8(self)
                   \/ RZ9(self) \/ RZr(self) \/ RZa(self) \/ RZa2(self)
                   \/ RZa3(self) \/ RZa4(self) \/ RZg(self)

L1(self) == /\ pc[self] = "L1"
            /\ l_t' = [l_t EXCEPT ![self] = cur]
            /\ l_b' = [l_b EXCEPT ![self] = BucketOf(tabs[cur].nb, lk[self])]
            /\ l_c' = [l_c EXCEPT ![self] = 1]
            /\ pc' = [pc EXCEPT ![self] = "L2"]
            /\ UNCHANGED << tabs, cur, nextGen, resizing, rmu, waiters, clk, 
                            done, fncalls, lres, cres, rvis, pcnt, stack, hint, 
                            known, rz_t, rz_new, rz_b, rz_nb, rz_cnt, lk, 
                            l_cand, l_s, l_v, l_k, kind, dk, dv, dfn, d_t, d_b, 
                            d_pos, d_old, d_r, d_ins, d_fnres, d_fndone, 
                            d_left, r_t, r_b, r_ents, r_i, c_t, ci >>

L2(self) == /\ pc[self] = "L2"
            /\ l_cand' = [l_cand EXCEPT ![self] = {s \in 1..Slots : tabs[l_t[self]].cells[l_b[self]][l_c[self]][s].pres /\ tabs[l_t[self]].cells[l_b[self]][l_c[self]][s].hsh = HH[lk[self]]}]
            /\ pc' = [pc EXCEPT ![self] = "L3"]
            /\ UNCHANGED << tabs, cur, nextGen, resizing, rmu, waiters, clk, 
                            done, fncalls, lres, cres, rvis, pcnt, stack, hint, 
                            known, rz_t, rz_new, rz_b, rz_nb, rz_cnt, lk, l_t, 
                            l_b, l_c, l_s, l_v, l_k, kind, dk, dv, dfn, d_t, 
                            d_b, d_pos, d_old, d_r, d_ins, d_fnres, d_fndone, 
                            d_left, r_t, r_b, r_ents, r_i, c_t, ci >>

L3(self) == /\ pc[self] = "L3"
            /\ IF l_cand[self] # {}
                  THEN /\ l_s' = [l_s EXCEPT ![self] = CHOOSE s \in l_cand[self] : \A r \in l_cand[self] : s <= r]
                       /\ IF Variant = "MapOf"
                             THEN /\ pc' = [pc EXCEPT ![self] = "L3e"]
                             ELSE /\ pc' = [pc EXCEPT ![self] = "L3v"]
                  ELSE /\ pc' = [pc EXCEPT ![self] = "L4"]
                       /\ l_s' = l_s
            /\ UNCHANGED << tabs, cur, nextGen, resizing, rmu, waiters, clk, 
                            done, fncalls, lres, cres, rvis, pcnt, stack, hint, 
                            known, rz_t, rz_new, rz_b, rz_nb, rz_cnt, lk, l_t, 
                            l_b, l_c, l_cand, l_v, l_k, kind, dk, dv, dfn, d_t, 
                            d_b, d_pos, d_old, d_r, d_ins, d_fnres, d_fndone, 
                            d_left, r_t, r_b, r_ents, r_i, c_t, ci >>

L3n(self) == /\ pc[self] = "L3n"
             /\ l_cand' = [l_cand EXCEPT ![self] = l_cand[self] \ {l_s[self]}]
             /\ pc' = [pc EXCEPT ![self] = "L3"]
             /\ UNCHANGED << tabs, cur, nextGen, resizing, rmu, waiters, clk, 
                             done, fncalls, lres, cres, rvis, pcnt, stack, 
                             hint, known, rz_t, rz_new, rz_b, rz_nb, rz_cnt, 
                             lk, l_t, l_b, l_c, l_s, l_v, l_k, kind, dk, dv, 
                             dfn, d_t, d_b, d_pos, d_old, d_r, d_ins, d_fnres, 
                             d_fndone, d_left, r_t, r_b, r_ents, r_i, c_t, ci >>

L3e(self) == /\ pc[self] = "L3e"
             /\ IF tabs[l_t[self]].cells[l_b[self]][l_c[self]][l_s[self]].key = lk[self]
                   THEN /\ lres' = [lres EXCEPT ![self] = [rv |-> tabs[l_t[self]].cells[l_b[self]][l_c[self]][l_s[self]].val, ok |-> TRUE]]
                        /\ pc' = [pc EXCEPT ![self] = Head(stack[self]).pc]
                        /\ l_t' = [l_t EXCEPT ![self] = Head(stack[self]).l_t]
                        /\ l_b' = [l_b EXCEPT ![self] = Head(stack[self]).l_b]
                        /\ l_c' = [l_c EXCEPT ![self] = Head(stack[self]).l_c]
                        /\ l_cand' = [l_cand EXCEPT ![self] = Head(stack[self]).l_cand]
                        /\ l_s' = [l_s EXCEPT ![self] = Head(stack[self]).l_s]
                        /\ l_v' = [l_v EXCEPT ![self] = Head(stack[self]).l_v]
                        /\ l_k' = [l_k EXCEPT ![self] = Head(stack[self]).l_k]
                        /\ lk' = [lk EXCEPT ![self] = Head(stack[self]).lk]
                        /\ stack' = [stack EXCEPT ![self] = Tail(stack[self])]
                   ELSE /\ pc' = [pc EXCEPT ![self] = "L3n"]
                        /\ UNCHANGED << lres, stack, lk, l_t, l_b, l_c, l_cand, 
                                        l_s, l_v, l_k >>
             /\ UNCHANGED << tabs, cur, nextGen, resizing, rmu, waiters, clk, 
                             done, fncalls, cres, rvis, pcnt, hint, known, 
                             rz_t, rz_new, rz_b, rz_nb, rz_cnt, kind, dk, dv, 
                             dfn, d_t, d_b, d_pos, d_old, d_r, d_ins, d_fnres, 
                             d_fndone, d_left, r_t, r_b, r_ents, r_i, c_t, ci >>

L3v(self) == /\ pc[self] = "L3v"
             /\ l_v' = [l_v EXCEPT ![self] = tabs[l_t[self]].cells[l_b[self]][l_c[self]][l_s[self]].val]
             /\ pc' = [pc EXCEPT ![self] = "L3k"]
             /\ UNCHANGED << tabs, cur, nextGen, resizing, rmu, waiters, clk, 
                             done, fncalls, lres, cres, rvis, pcnt, stack, 
                             hint, known, rz_t, rz_new, rz_b, rz_nb, rz_cnt, 
                             lk, l_t, l_b, l_c, l_cand, l_s, l_k, kind, dk, dv, 
                             dfn, d_t, d_b, d_pos, d_old, d_r, d_ins, d_fnres, 
                             d_fndone, d_left, r_t, r_b, r_ents, r_i, c_t, ci >>

L3k(self) == /\ pc[self] = "L3k"
             /\ l_k' = [l_k EXCEPT ![self] = tabs[l_t[self]].cells[l_b[self]][l_c[self]][l_s[self]].key]
             /\ pc' = [pc EXCEPT ![self] = "L3c"]
             /\ UNCHANGED << tabs, cur, nextGen, resizing, rmu, waiters, clk, 
                             done, fncalls, lres, cres, rvis, pcnt, stack, 
                             hint, known, rz_t, rz_new, rz_b, rz_nb, rz_cnt, 
                             lk, l_t, l_b, l_c, l_cand, l_s, l_v, kind, dk, dv, 
                             dfn, d_t, d_b, d_pos, d_old, d_r, d_ins, d_fnres, 
                             d_fndone, d_left, r_t, r_b, r_ents, r_i, c_t, ci >>

L3c(self) == /\ pc[self] = "L3c"
             /\ IF l_k[self] # NilK /\ l_v[self] # NilV /\ l_k[self] = lk[self]
                   THEN /\ IF SnapshotRecheck
                              THEN /\ pc' = [pc EXCEPT ![self] = "L3r"]
                                   /\ UNCHANGED << lres, stack, lk, l_t, l_b, 
                                                   l_c, l_cand, l_s, l_v, l_k >>
                              ELSE /\ lres' = [lres EXCEPT ![self] = [rv |-> l_v[self], ok |-> TRUE]]
                                   /\ pc' = [pc EXCEPT ![self] = Head(stack[self]).pc]
                                   /\ l_t' = [l_t EXCEPT ![self] = Head(stack[self]).l_t]
                                   /\ l_b' = [l_b EXCEPT ![self] = Head(stack[self]).l_b]
                                   /\ l_c' = [l_c EXCEPT ![self] = Head(stack[self]).l_c]
                                   /\ l_cand' = [l_cand EXCEPT ![self] = Head(stack[self]).l_cand]
                                   /\ l_s' = [l_s EXCEPT ![self] = Head(stack[self]).l_s]
                                   /\ l_v' = [l_v EXCEPT ![self] = Head(stack[self]).l_v]
                                   /\ l_k' = [l_k EXCEPT ![self] = Head(stack[self]).l_k]
                                   /\ lk' = [lk EXCEPT ![self] = Head(stack[self]).lk]
                                   /\ stack' = [stack EXCEPT ![self] = Tail(stack[self])]
                   ELSE /\ pc' = [pc EXCEPT ![self] = "L3n"]
                        /\ UNCHANGED << lres, stack, lk, l_t, l_b, l_c, l_cand, 
                                        l_s, l_v, l_k >>
             /\ UNCHANGED << tabs, cur, nextGen, resizing, rmu, waiters, clk, 
                             done, fncalls, cres, rvis, pcnt, hint, known, 
                             rz_t, rz_new, rz_b, rz_nb, rz_cnt, kind, dk, dv, 
                             dfn, d_t, d_b, d_pos, d_old, d_r, d_ins, d_fnres, 
                             d_fndone, d_left, r_t, r_b, r_ents, r_i, c_t, ci >>

L3r(self) == /\ pc[self] = "L3r"
             /\ IF tabs[l_t[self]].cells[l_b[self]][l_c[self]][l_s[self]].val = l_v[self]
                   THEN /\ lres' = [lres EXCEPT ![self] = [rv |-> l_v[self], ok |-> TRUE]]
                        /\ pc' = [pc EXCEPT ![self] = Head(stack[self]).pc]
                        /\ l_t' = [l_t EXCEPT ![self] = Head(stack[self]).l_t]
                        /\ l_b' = [l_b EXCEPT ![self] = Head(stack[self]).l_b]
                        /\ l_c' = [l_c EXCEPT ![self] = Head(stack[self]).l_c]
                        /\ l_cand' = [l_cand EXCEPT ![self] = Head(stack[self]).l_cand]
                        /\ l_s' = [l_s EXCEPT ![self] = Head(stack[self]).l_s]
                        /\ l_v' = [l_v EXCEPT ![self] = Head(stack[self]).l_v]
                        /\ l_k' = [l_k EXCEPT ![self] = Head(stack[self]).l_k]
                        /\ lk' = [lk EXCEPT ![self] = Head(stack[self]).lk]
                        /\ stack' = [stack EXCEPT ![self] = Tail(stack[self])]
                   ELSE /\ pc' = [pc EXCEPT ![self] = "L3v"]
                        /\ UNCHANGED << lres, stack, lk, l_t, l_b, l_c, l_cand, 
                                        l_s, l_v, l_k >>
             /\ UNCHANGED << tabs, cur, nextGen, resizing, rmu, waiters, clk, 
                             done, fncalls, cres, rvis, pcnt, hint, known, 
                             rz_t, rz_new, rz_b, rz_nb, rz_cnt, kind, dk, dv, 
                             dfn, d_t, d_b, d_pos, d_old, d_r, d_ins, d_fnres, 
                             d_fndone, d_left, r_t, r_b, r_ents, r_i, c_t, ci >>

L4(self) == /\ pc[self] = "L4"
            /\ IF l_c[self] < Len(tabs[l_t[self]].cells[l_b[self]])
                  THEN /\ l_c' = [l_c EXCEPT ![self] = l_c[self] + 1]
                       /\ pc' = [pc EXCEPT ![self] = "L2"]
                       /\ UNCHANGED << lres, stack, lk, l_t, l_b, l_cand, l_s, 
                                       l_v, l_k >>
                  ELSE /\ IF LoadOnMissWaits /\ resizing
                             THEN /\ pc' = [pc EXCEPT ![self] = "L4w"]
                                  /\ UNCHANGED << lres, stack, lk, l_t, l_b, 
                                                  l_c, l_cand, l_s, l_v, l_k >>
                             ELSE /\ lres' = [lres EXCEPT ![self] = [rv |-> NilV, ok |-> FALSE]]
                                  /\ pc' = [pc EXCEPT ![self] = Head(stack[self]).pc]
                                  /\ l_t' = [l_t EXCEPT ![self] = Head(stack[self]).l_t]
                                  /\ l_b' = [l_b EXCEPT ![self] = Head(stack[self]).l_b]
                                  /\ l_c' = [l_c EXCEPT ![self] = Head(stack[self]).l_c]
                                  /\ l_cand' = [l_cand EXCEPT ![self] = Head(stack[self]).l_cand]
                                  /\ l_s' = [l_s EXCEPT ![self] = Head(stack[self]).l_s]
                                  /\ l_v' = [l_v EXCEPT ![self] = Head(stack[self]).l_v]
                                  /\ l_k' = [l_k EXCEPT ![self] = Head(stack[self]).l_k]
                                  /\ lk' = [lk EXCEPT ![self] = Head(stack[self]).lk]
                                  /\ stack' = [stack EXCEPT ![self] = Tail(stack[self])]
            /\ UNCHANGED << tabs, cur, nextGen, resizing, rmu, waiters, clk, 
                            done, fncalls, cres, rvis, pcnt, hint, known, rz_t, 
                            rz_new, rz_b, rz_nb, rz_cnt, kind, dk, dv, dfn, 
                            d_t, d_b, d_pos, d_old, d_r, d_ins, d_fnres, 
                            d_fndone, d_left, r_t, r_b, r_ents, r_i, c_t, ci >>

L4w(self) == /\ pc[self] = "L4w"
             /\ ~resizing
             /\ pc' = [pc EXCEPT ![self] = "L1"]
             /\ UNCHANGED << tabs, cur, nextGen, resizing, rmu, waiters, clk, 
                             done, fncalls, lres, cres, rvis, pcnt, stack, 
                             hint, known, rz_t, rz_new, rz_b, rz_nb, rz_cnt, 
                             lk, l_t, l_b, l_c, l_cand, l_s, l_v, l_k, kind, 
                             dk, dv, dfn, d_t, d_b, d_pos, d_old, d_r, d_ins, 
                             d_fnres, d_fndone, d_left, r_t, r_b, r_ents, r_i, 
                             c_t, ci >>

load(self) == L1(self) \/ L2(self) \/ L3(self) \/ L3n(self) \/ L3e(self)
                 \/ L3v(self) \/ L3k(self) \/ L3c(self) \/ L3r(self)
                 \/ L4(self) \/ L4w(self)

DC0(self) == /\ pc[self] = "DC0"
             /\ IF kind[self] \in {"LoadOrStore", "LoadOrCompute"}
                   THEN /\ /\ lk' = [lk EXCEPT ![self] = dk[self]]
                           /\ stack' = [stack EXCEPT ![self] = << [ procedure |->  "load",
                                                                    pc        |->  "DC0r",
                                                                    l_t       |->  l_t[self],
                                                                    l_b       |->  l_b[self],
                                                                    l_c       |->  l_c[self],
                                                                    l_cand    |->  l_cand[self],
                                                                    l_s       |->  l_s[self],
                                                                    l_v       |->  l_v[self],
                                                                    l_k       |->  l_k[self],
                                                                    lk        |->  lk[self] ] >>
                                                                \o stack[self]]
                        /\ l_t' = [l_t EXCEPT ![self] = 0]
                        /\ l_b' = [l_b EXCEPT ![self] = 0]
                        /\ l_c' = [l_c EXCEPT ![self] = 1]
                        /\ l_cand' = [l_cand EXCEPT ![self] = {}]
                        /\ l_s' = [l_s EXCEPT ![self] = 0]
                        /\ l_v' = [l_v EXCEPT ![self] = NilV]
                        /\ l_k' = [l_k EXCEPT ![self] = NilK]
                        /\ pc' = [pc EXCEPT ![self] = "L1"]
                   ELSE /\ pc' = [pc EXCEPT ![self] = "DC1"]
                        /\ UNCHANGED << stack, lk, l_t, l_b, l_c, l_cand, l_s, 
                                        l_v, l_k >>
             /\ UNCHANGED << tabs, cur, nextGen, resizing, rmu, waiters, clk, 
                             done, fncalls, lres, cres, rvis, pcnt, hint, 
                             known, rz_t, rz_new, rz_b, rz_nb, rz_cnt, kind, 
                             dk, dv, dfn, d_t, d_b, d_pos, d_old, d_r, d_ins, 
                             d_fnres, d_fndone, d_left, r_t, r_b, r_ents, r_i, 
                             c_t, ci >>

DC0r(self) == /\ pc[self] = "DC0r"
              /\ IF lres[self].ok
                    THEN /\ cres' = [cres EXCEPT ![self] = [rv |-> lres[self].rv, ok |-> TRUE]]
                         /\ pc' = [pc EXCEPT ![self] = Head(stack[self]).pc]
                         /\ d_t' = [d_t EXCEPT ![self] = Head(stack[self]).d_t]
                         /\ d_b' = [d_b EXCEPT ![self] = Head(stack[self]).d_b]
                         /\ d_pos' = [d_pos EXCEPT ![self] = Head(stack[self]).d_pos]
                         /\ d_old' = [d_old EXCEPT ![self] = Head(stack[self]).d_old]
                         /\ d_r' = [d_r EXCEPT ![self] = Head(stack[self]).d_r]
                         /\ d_ins' = [d_ins EXCEPT ![self] = Head(stack[self]).d_ins]
                         /\ d_fnres' = [d_fnres EXCEPT ![self] = Head(stack[self]).d_fnres]
                         /\ d_fndone' = [d_fndone EXCEPT ![self] = Head(stack[self]).d_fndone]
                         /\ d_left' = [d_left EXCEPT ![self] = Head(stack[self]).d_left]
                         /\ kind' = [kind EXCEPT ![self] = Head(stack[self]).kind]
                         /\ dk' = [dk EXCEPT ![self] = Head(stack[self]).dk]
                         /\ dv' = [dv EXCEPT ![self] = Head(stack[self]).dv]
                         /\ dfn' = [dfn EXCEPT ![self] = Head(stack[self]).dfn]
                         /\ stack' = [stack EXCEPT ![self] = Tail(stack[self])]
                    ELSE /\ pc' = [pc EXCEPT ![self] = "DC1"]
                         /\ UNCHANGED << cres, stack, kind, dk, dv, dfn, d_t, 
                                         d_b, d_pos, d_old, d_r, d_ins, 
                                         d_fnres, d_fndone, d_left >>
              /\ UNCHANGED << tabs, cur, nextGen, resizing, rmu, waiters, clk, 
                              done, fncalls, lres, rvis, pcnt, hint, known, 
                              rz_t, rz_new, rz_b, rz_nb, rz_cnt, lk, l_t, l_b, 
                              l_c, l_cand, l_s, l_v, l_k, r_t, r_b, r_ents, 
                              r_i, c_t, ci >>

DC1(self) == /\ pc[self] = "DC1"
             /\ d_t' = [d_t EXCEPT ![self] = cur]
             /\ d_b' = [d_b EXCEPT ![self] = BucketOf(tabs[cur].nb, dk[self])]
             /\ pc' = [pc EXCEPT ![self] = "DC2"]
             /\ UNCHANGED << tabs, cur, nextGen, resizing, rmu, waiters, clk, 
                             done, fncalls, lres, cres, rvis, pcnt, stack, 
                             hint, known, rz_t, rz_new, rz_b, rz_nb, rz_cnt, 
                             lk, l_t, l_b, l_c, l_cand, l_s, l_v, l_k, kind, 
                             dk, dv, dfn, d_pos, d_old, d_r, d_ins, d_fnres, 
                             d_fndone, d_left, r_t, r_b, r_ents, r_i, c_t, ci >>

DC2(self) == /\ pc[self] = "DC2"
             /\ tabs[d_t[self]].lock[d_b[self]] = None
             /\ tabs' = [tabs EXCEPT ![d_t[self]].lock[d_b[self]] = self]
             /\ pc' = [pc EXCEPT ![self] = "DC3"]
             /\ UNCHANGED << cur, nextGen, resizing, rmu, waiters, clk, done, 
                             fncalls, lres, cres, rvis, pcnt, stack, hint, 
                             known, rz_t, rz_new, rz_b, rz_nb, rz_cnt, lk, l_t, 
                             l_b, l_c, l_cand, l_s, l_v, l_k, kind, dk, dv, 
                             dfn, d_t, d_b, d_pos, d_old, d_r, d_ins, d_fnres, 
                             d_fndone, d_left, r_t, r_b, r_ents, r_i, c_t, ci >>

DC3(self) == /\ pc[self] = "DC3"
             /\ IF CheckOrder \in {"flag-table", "flag-only"}
                   THEN /\ IF resizing
                              THEN /\ pc' = [pc EXCEPT ![self] = "DC3u"]
                              ELSE /\ pc' = [pc EXCEPT ![self] = "DC4"]
                   ELSE /\ IF CheckOrder \in {"table-flag", "table-only"}
                              THEN /\ IF cur # d_t[self]
                                         THEN /\ pc' = [pc EXCEPT ![self] = "DC3v"]
                                         ELSE /\ pc' = [pc EXCEPT ![self] = "DC4"]
                              ELSE /\ pc' = [pc EXCEPT ![self] = "DC4"]
             /\ UNCHANGED << tabs, cur, nextGen, resizing, rmu, waiters, clk, 
                             done, fncalls, lres, cres, rvis, pcnt, stack, 
                             hint, known, rz_t, rz_new, rz_b, rz_nb, rz_cnt, 
                             lk, l_t, l_b, l_c, l_cand, l_s, l_v, l_k, kind, 
                             dk, dv, dfn, d_t, d_b, d_pos, d_old, d_r, d_ins, 
                             d_fnres, d_fndone, d_left, r_t, r_b, r_ents, r_i, 
                             c_t, ci >>

DC3u(self) == /\ pc[self] = "DC3u"
              /\ tabs' = [tabs EXCEPT ![d_t[self]].lock[d_b[self]] = None]
              /\ stack' = [stack EXCEPT ![self] = << [ procedure |->  "waitForResize",
                                                       pc        |->  "DC3g" ] >>
                                                   \o stack[self]]
              /\ pc' = [pc EXCEPT ![self] = "W1"]
              /\ UNCHANGED << cur, nextGen, resizing, rmu, waiters, clk, done, 
                              fncalls, lres, cres, rvis, pcnt, hint, known, 
                              rz_t, rz_new, rz_b, rz_nb, rz_cnt, lk, l_t, l_b, 
                              l_c, l_cand, l_s, l_v, l_k, kind, dk, dv, dfn, 
                              d_t, d_b, d_pos, d_old, d_r, d_ins, d_fnres, 
                              d_fndone, d_left, r_t, r_b, r_ents, r_i, c_t, ci >>

DC3g(self) == /\ pc[self] = "DC3g"
              /\ pc' = [pc EXCEPT ![self] = "DC1"]
              /\ UNCHANGED << tabs, cur, nextGen, resizing, rmu, waiters, clk, 
                              done, fncalls, lres, cres, rvis, pcnt, stack, 
                              hint, known, rz_t, rz_new, rz_b, rz_nb, rz_cnt, 
                              lk, l_t, l_b, l_c, l_cand, l_s, l_v, l_k, kind, 
                              dk, dv, dfn, d_t, d_b, d_pos, d_old, d_r, d_ins, 
                              d_fnres, d_fndone, d_left, r_t, r_b, r_ents, r_i, 
                              c_t, ci >>

DC3v(self) == /\ pc[self] = "DC3v"
              /\ IF UnlockOnNewerTable
                    THEN /\ tabs' = [tabs EXCEPT ![d_t[self]].lock[d_b[self]] = None]
                    ELSE /\ TRUE
                         /\ tabs' = tabs
              /\ pc' = [pc EXCEPT ![self] = "DC1"]
              /\ UNCHANGED << cur, nextGen, resizing, rmu, waiters, clk, done, 
                              fncalls, lres, cres, rvis, pcnt, stack, hint, 
                              known, rz_t, rz_new, rz_b, rz_nb, rz_cnt, lk, 
                              l_t, l_b, l_c, l_cand, l_s, l_v, l_k, kind, dk, 
                              dv, dfn, d_t, d_b, d_pos, d_old, d_r, d_ins, 
                              d_fnres, d_fndone, d_left, r_t, r_b, r_ents, r_i, 
                              c_t, ci >>

DC4(self) == /\ pc[self] = "DC4"
             /\ IF CheckOrder = "flag-table"
                   THEN /\ IF cur # d_t[self]
                              THEN /\ pc' = [pc EXCEPT ![self] = "DC4u"]
                              ELSE /\ pc' = [pc EXCEPT ![self] = "DC5"]
                   ELSE /\ IF CheckOrder = "table-flag"
                              THEN /\ IF resizing
                                         THEN /\ pc' = [pc EXCEPT ![self] = "DC4v"]
                                         ELSE /\ pc' = [pc EXCEPT ![self] = "DC5"]
                              ELSE /\ pc' = [pc EXCEPT ![self] = "DC5"]
             /\ UNCHANGED << tabs, cur, nextGen, resizing, rmu, waiters, clk, 
                             done, fncalls, lres, cres, rvis, pcnt, stack, 
                             hint, known, rz_t, rz_new, rz_b, rz_nb, rz_cnt, 
                             lk, l_t, l_b, l_c, l_cand, l_s, l_v, l_k, kind, 
                             dk, dv, dfn, d_t, d_b, d_pos, d_old, d_r, d_ins, 
                             d_fnres, d_fndone, d_left, r_t, r_b, r_ents, r_i, 
                             c_t, ci >>

DC4u(self) == /\ pc[self] = "DC4u"
              /\ IF UnlockOnNewerTable
                    THEN /\ tabs' = [tabs EXCEPT ![d_t[self]].lock[d_b[self]] = None]
                    ELSE /\ TRUE
                         /\ tabs' = tabs
              /\ pc' = [pc EXCEPT ![self] = "DC1"]
              /\ UNCHANGED << cur, nextGen, resizing, rmu, waiters, clk, done, 
                              fncalls, lres, cres, rvis, pcnt, stack, hint, 
                              known, rz_t, rz_new, rz_b, rz_nb, rz_cnt, lk, 
                              l_t, l_b, l_c, l_cand, l_s, l_v, l_k, kind, dk, 
                              dv, dfn, d_t, d_b, d_pos, d_old, d_r, d_ins, 
                              d_fnres, d_fndone, d_left, r_t, r_b, r_ents, r_i, 
                              c_t, ci >>

DC4v(self) == /\ pc[self] = "DC4v"
              /\ tabs' = [tabs EXCEPT ![d_t[self]].lock[d_b[self]] = None]
              /\ stack' = [stack EXCEPT ![self] = << [ procedure |->  "waitForResize",
                                                       pc        |->  "DC4g" ] >>
                                                   \o stack[self]]
              /\ pc' = [pc EXCEPT ![self] = "W1"]
              /\ UNCHANGED << cur, nextGen, resizing, rmu, waiters, clk, done, 
                              fncalls, lres, cres, rvis, pcnt, hint, known, 
                              rz_t, rz_new, rz_b, rz_nb, rz_cnt, lk, l_t, l_b, 
                              l_c, l_cand, l_s, l_v, l_k, kind, dk, dv, dfn, 
                              d_t, d_b, d_pos, d_old, d_r, d_ins, d_fnres, 
                              d_fndone, d_left, r_t, r_b, r_ents, r_i, c_t, ci >>

DC4g(self) == /\ pc[self] = "DC4g"
              /\ pc' = [pc EXCEPT ![self] = "DC1"]
              /\ UNCHANGED << tabs, cur, nextGen, resizing, rmu, waiters, clk, 
                              done, fncalls, lres, cres, rvis, pcnt, stack, 
                              hint, known, rz_t, rz_new, rz_b, rz_nb, rz_cnt, 
                              lk, l_t, l_b, l_c, l_cand, l_s, l_v, l_k, kind, 
                              dk, dv, dfn, d_t, d_b, d_pos, d_old, d_r, d_ins, 
                              d_fnres, d_fndone, d_left, r_t, r_b, r_ents, r_i, 
                              c_t, ci >>

DC5(self) == /\ pc[self] = "DC5"
             /\ IF FindKey(tabs[d_t[self]].cells[d_b[self]], dk[self]) # {}
                   THEN /\ d_pos' = [d_pos EXCEPT ![self] = CHOOSE p \in FindKey(tabs[d_t[self]].cells[d_b[self]], dk[self]) : TRUE]
                        /\ d_old' = [d_old EXCEPT ![self] = tabs[d_t[self]].cells[d_b[self]][d_pos'[self][1]][d_pos'[self][2]].val]
                        /\ IF kind[self] \in {"LoadOrStore", "LoadOrCompute"}
                              THEN /\ cres' = [cres EXCEPT ![self] = [rv |-> d_old'[self], ok |-> TRUE]]
                                   /\ pc' = [pc EXCEPT ![self] = "DCu"]
                              ELSE /\ pc' = [pc EXCEPT ![self] = "DF1"]
                                   /\ cres' = cres
                        /\ d_ins' = d_ins
                   ELSE /\ IF FirstEmptyPos(tabs[d_t[self]].cells[d_b[self]]) # {}
                              THEN /\ d_pos' = [d_pos EXCEPT ![self] = CHOOSE p \in FirstEmptyPos(tabs[d_t[self]].cells[d_b[self]]) : TRUE]
                                   /\ d_ins' = [d_ins EXCEPT ![self] = TRUE]
                                   /\ pc' = [pc EXCEPT ![self] = "DF2"]
                              ELSE /\ pc' = [pc EXCEPT ![self] = "DG0"]
                                   /\ UNCHANGED << d_pos, d_ins >>
                        /\ UNCHANGED << cres, d_old >>
             /\ UNCHANGED << tabs, cur, nextGen, resizing, rmu, waiters, clk, 
                             done, fncalls, lres, rvis, pcnt, stack, hint, 
                             known, rz_t, rz_new, rz_b, rz_nb, rz_cnt, lk, l_t, 
                             l_b, l_c, l_cand, l_s, l_v, l_k, kind, dk, dv, 
                             dfn, d_t, d_b, d_r, d_fnres, d_fndone, d_left, 
                             r_t, r_b, r_ents, r_i, c_t, ci >>

DF1(self) == /\ pc[self] = "DF1"
             /\ d_r' = [d_r EXCEPT ![self] = IF kind[self] = "Compute" THEN FnResult(dfn[self], dv[self], d_old[self], TRUE) ELSE IF kind[self] \in {"LoadAndDelete", "Delete"} THEN <<d_old[self], TRUE>> ELSE <<dv[self], FALSE>>]
             /\ fncalls' = [fncalls EXCEPT ![self] = fncalls[self] + (IF kind[self] = "Compute" THEN 1 ELSE 0)]
             /\ IF d_r'[self][2]
                   THEN /\ pc' = [pc EXCEPT ![self] = "DD0"]
                   ELSE /\ pc' = [pc EXCEPT ![self] = "DS1"]
             /\ UNCHANGED << tabs, cur, nextGen, resizing, rmu, waiters, clk, 
                             done, lres, cres, rvis, pcnt, stack, hint, known, 
                             rz_t, rz_new, rz_b, rz_nb, rz_cnt, lk, l_t, l_b, 
                             l_c, l_cand, l_s, l_v, l_k, kind, dk, dv, dfn, 
                             d_t, d_b, d_pos, d_old, d_ins, d_fnres, d_fndone, 
                             d_left, r_t, r_b, r_ents, r_i, c_t, ci >>

DD0(self) == /\ pc[self] = "DD0"
             /\ tabs' = [tabs EXCEPT ![d_t[self]].cells[d_b[self]][d_pos[self][1]][d_pos[self][2]].pres = FALSE]
             /\ pc' = [pc EXCEPT ![self] = "DD1"]
             /\ UNCHANGED << cur, nextGen, resizing, rmu, waiters, clk, done, 
                             fncalls, lres, cres, rvis, pcnt, stack, hint, 
                             known, rz_t, rz_new, rz_b, rz_nb, rz_cnt, lk, l_t, 
                             l_b, l_c, l_cand, l_s, l_v, l_k, kind, dk, dv, 
                             dfn, d_t, d_b, d_pos, d_old, d_r, d_ins, d_fnres, 
                             d_fndone, d_left, r_t, r_b, r_ents, r_i, c_t, ci >>

DD1(self) == /\ pc[self] = "DD1"
             /\ IF Variant = "Map"
                   THEN /\ tabs' = [tabs EXCEPT ![d_t[self]].cells[d_b[self]][d_pos[self][1]][d_pos[self][2]].val = NilV]
                   ELSE /\ tabs' = [tabs EXCEPT ![d_t[self]].cells[d_b[self]][d_pos[self][1]][d_pos[self][2]] = EmptySlot]
             /\ pc' = [pc EXCEPT ![self] = "DD2"]
             /\ UNCHANGED << cur, nextGen, resizing, rmu, waiters, clk, done, 
                             fncalls, lres, cres, rvis, pcnt, stack, hint, 
                             known, rz_t, rz_new, rz_b, rz_nb, rz_cnt, lk, l_t, 
                             l_b, l_c, l_cand, l_s, l_v, l_k, kind, dk, dv, 
                             dfn, d_t, d_b, d_pos, d_old, d_r, d_ins, d_fnres, 
                             d_fndone, d_left, r_t, r_b, r_ents, r_i, c_t, ci >>

DD2(self) == /\ pc[self] = "DD2"
             /\ IF Variant = "Map"
                   THEN /\ tabs' = [tabs EXCEPT ![d_t[self]].cells[d_b[self]][d_pos[self][1]][d_pos[self][2]] = EmptySlot]
                   ELSE /\ TRUE
                        /\ tabs' = tabs
             /\ pc' = [pc EXCEPT ![self] = "DDu"]
             /\ UNCHANGED << cur, nextGen, resizing, rmu, waiters, clk, done, 
                             fncalls, lres, cres, rvis, pcnt, stack, hint, 
                             known, rz_t, rz_new, rz_b, rz_nb, rz_cnt, lk, l_t, 
                             l_b, l_c, l_cand, l_s, l_v, l_k, kind, dk, dv, 
                             dfn, d_t, d_b, d_pos, d_old, d_r, d_ins, d_fnres, 
                             d_fndone, d_left, r_t, r_b, r_ents, r_i, c_t, ci >>

DDu(self) == /\ pc[self] = "DDu"
             /\ d_left' = [d_left EXCEPT ![self] = (Variant = "Map" /\ ChainIsEmpty(tabs[d_t[self]].cells[d_b[self]])) \/ (Variant = "MapOf" /\ CellMetaEmpty(tabs[d_t[self]].cells[d_b[self]][d_pos[self][1]]))]
             /\ tabs' = [tabs EXCEPT ![d_t[self]].lock[d_b[self]] = None]
             /\ cres' = [cres EXCEPT ![self] = [rv |-> d_old[self], ok |-> (kind[self] # "Compute")]]
             /\ pc' = [pc EXCEPT ![self] = "DDa"]
             /\ UNCHANGED << cur, nextGen, resizing, rmu, waiters, clk, done, 
                             fncalls, lres, rvis, pcnt, stack, hint, known, 
                             rz_t, rz_new, rz_b, rz_nb, rz_cnt, lk, l_t, l_b, 
                             l_c, l_cand, l_s, l_v, l_k, kind, dk, dv, dfn, 
                             d_t, d_b, d_pos, d_old, d_r, d_ins, d_fnres, 
                             d_fndone, r_t, r_b, r_ents, r_i, c_t, ci >>

DDa(self) == /\ pc[self] = "DDa"
             /\ IF SizeTarget = "modified"
                   THEN /\ tabs' = [tabs EXCEPT ![d_t[self]].size = tabs[d_t[self]].size - 1]
                   ELSE /\ tabs' = [tabs EXCEPT ![cur].size = tabs[cur].size - 1]
             /\ pc' = [pc EXCEPT ![self] = "DDs"]
             /\ UNCHANGED << cur, nextGen, resizing, rmu, waiters, clk, done, 
                             fncalls, lres, cres, rvis, pcnt, stack, hint, 
                             known, rz_t, rz_new, rz_b, rz_nb, rz_cnt, lk, l_t, 
                             l_b, l_c, l_cand, l_s, l_v, l_k, kind, dk, dv, 
                             dfn, d_t, d_b, d_pos, d_old, d_r, d_ins, d_fnres, 
                             d_fndone, d_left, r_t, r_b, r_ents, r_i, c_t, ci >>

DDs(self) == /\ pc[self] = "DDs"
             /\ IF d_left[self]
                   THEN /\ /\ hint' = [hint EXCEPT ![self] = "shrink"]
                           /\ known' = [known EXCEPT ![self] = d_t[self]]
                           /\ stack' = [stack EXCEPT ![self] = << [ procedure |->  "resize",
                                                                    pc        |->  "DDr",
                                                                    rz_t      |->  rz_t[self],
                                                                    rz_new    |->  rz_new[self],
                                                                    rz_b      |->  rz_b[self],
                                                                    rz_nb     |->  rz_nb[self],
                                                                    rz_cnt    |->  rz_cnt[self],
                                                                    hint      |->  hint[self],
                                                                    known     |->  known[self] ] >>
                                                                \o stack[self]]
                        /\ rz_t' = [rz_t EXCEPT ![self] = 0]
                        /\ rz_new' = [rz_new EXCEPT ![self] = 0]
                        /\ rz_b' = [rz_b EXCEPT ![self] = 0]
                        /\ rz_nb' = [rz_nb EXCEPT ![self] = 0]
                        /\ rz_cnt' = [rz_cnt EXCEPT ![self] = 0]
                        /\ pc' = [pc EXCEPT ![self] = "RZ0"]
                   ELSE /\ pc' = [pc EXCEPT ![self] = "DDr"]
                        /\ UNCHANGED << stack, hint, known, rz_t, rz_new, rz_b, 
                                        rz_nb, rz_cnt >>
             /\ UNCHANGED << tabs, cur, nextGen, resizing, rmu, waiters, clk, 
                             done, fncalls, lres, cres, rvis, pcnt, lk, l_t, 
                             l_b, l_c, l_cand, l_s, l_v, l_k, kind, dk, dv, 
                             dfn, d_t, d_b, d_pos, d_old, d_r, d_ins, d_fnres, 
                             d_fndone, d_left, r_t, r_b, r_ents, r_i, c_t, ci >>

DDr(self) == /\ pc[self] = "DDr"
             /\ pc' = [pc EXCEPT ![self] = Head(stack[self]).pc]
             /\ d_t' = [d_t EXCEPT ![self] = Head(stack[self]).d_t]
             /\ d_b' = [d_b EXCEPT ![self] = Head(stack[self]).d_b]
             /\ d_pos' = [d_pos EXCEPT ![self] = Head(stack[self]).d_pos]
             /\ d_old' = [d_old EXCEPT ![self] = Head(stack[self]).d_old]
             /\ d_r' = [d_r EXCEPT ![self] = Head(stack[self]).d_r]
             /\ d_ins' = [d_ins EXCEPT ![self] = Head(stack[self]).d_ins]
             /\ d_fnres' = [d_fnres EXCEPT ![self] = Head(stack[self]).d_fnres]
             /\ d_fndone' = [d_fndone EXCEPT ![self] = Head(stack[self]).d_fndone]
             /\ d_left' = [d_left EXCEPT ![self] = Head(stack[self]).d_left]
             /\ kind' = [kind EXCEPT ![self] = Head(stack[self]).kind]
             /\ dk' = [dk EXCEPT ![self] = Head(stack[self]).dk]
             /\ dv' = [dv EXCEPT ![self] = Head(stack[self]).dv]
             /\ dfn' = [dfn EXCEPT ![self] = Head(stack[self]).dfn]
             /\ stack' = [stack EXCEPT ![self] = Tail(stack[self])]
             /\ UNCHANGED << tabs, cur, nextGen, resizing, rmu, waiters, clk, 
                             done, fncalls, lres, cres, rvis, pcnt, hint, 
                             known, rz_t, rz_new, rz_b, rz_nb, rz_cnt, lk, l_t, 
                             l_b, l_c, l_cand, l_s, l_v, l_k, r_t, r_b, r_ents, 
                             r_i, c_t, ci >>

DS1(self) == /\ pc[self] = "DS1"
             /\ tabs' = [tabs EXCEPT ![d_t[self]].cells[d_b[self]][d_pos[self][1]][d_pos[self][2]].val = d_r[self][1]]
             /\ cres' = [cres EXCEPT ![self] = IF kind[self] = "Compute" THEN [rv |-> d_r[self][1], ok |-> TRUE] ELSE [rv |-> d_old[self], ok |-> TRUE]]
             /\ pc' = [pc EXCEPT ![self] = "DCu"]
             /\ UNCHANGED << cur, nextGen, resizing, rmu, waiters, clk, done, 
                             fncalls, lres, rvis, pcnt, stack, hint, known, 
                             rz_t, rz_new, rz_b, rz_nb, rz_cnt, lk, l_t, l_b, 
                             l_c, l_cand, l_s, l_v, l_k, kind, dk, dv, dfn, 
                             d_t, d_b, d_pos, d_old, d_r, d_ins, d_fnres, 
                             d_fndone, d_left, r_t, r_b, r_ents, r_i, c_t, ci >>

DF2(self) == /\ pc[self] = "DF2"
             /\ d_r' = [d_r EXCEPT ![self] = IF kind[self] = "Compute" THEN FnResult(dfn[self], dv[self], NilV, FALSE) ELSE IF kind[self] \in {"LoadAndDelete", "Delete"} THEN <<NilV, TRUE>> ELSE <<dv[self], FALSE>>]
             /\ fncalls' = [fncalls EXCEPT ![self] = fncalls[self] + (IF kind[self] \in {"Compute", "LoadOrCompute"} THEN 1 ELSE 0)]
             /\ IF d_r'[self][2]
                   THEN /\ cres' = [cres EXCEPT ![self] = [rv |-> NilV, ok |-> FALSE]]
                        /\ pc' = [pc EXCEPT ![self] = "DCu"]
                   ELSE /\ pc' = [pc EXCEPT ![self] = "DI0"]
                        /\ cres' = cres
             /\ UNCHANGED << tabs, cur, nextGen, resizing, rmu, waiters, clk, 
                             done, lres, rvis, pcnt, stack, hint, known, rz_t, 
                             rz_new, rz_b, rz_nb, rz_cnt, lk, l_t, l_b, l_c, 
                             l_cand, l_s, l_v, l_k, kind, dk, dv, dfn, d_t, 
                             d_b, d_pos, d_old, d_ins, d_fnres, d_fndone, 
                             d_left, r_t, r_b, r_ents, r_i, c_t, ci >>

DI0(self) == /\ pc[self] = "DI0"
             /\ tabs' = [tabs EXCEPT ![d_t[self]].cells[d_b[self]][d_pos[self][1]][d_pos[self][2]].pres = TRUE,
                                     ![d_t[self]].cells[d_b[self]][d_pos[self][1]][d_pos[self][2]].hsh = HH[dk[self]]]
             /\ pc' = [pc EXCEPT ![self] = "DI1"]
             /\ UNCHANGED << cur, nextGen, resizing, rmu, waiters, clk, done, 
                             fncalls, lres, cres, rvis, pcnt, stack, hint, 
                             known, rz_t, rz_new, rz_b, rz_nb, rz_cnt, lk, l_t, 
                             l_b, l_c, l_cand, l_s, l_v, l_k, kind, dk, dv, 
                             dfn, d_t, d_b, d_pos, d_old, d_r, d_ins, d_fnres, 
                             d_fndone, d_left, r_t, r_b, r_ents, r_i, c_t, ci >>

DI1(self) == /\ pc[self] = "DI1"
             /\ IF Variant = "MapOf"
                   THEN /\ tabs' = [tabs EXCEPT ![d_t[self]].cells[d_b[self]][d_pos[self][1]][d_pos[self][2]].key = dk[self],
                                                ![d_t[self]].cells[d_b[self]][d_pos[self][1]][d_pos[self][2]].val = d_r[self][1]]
                   ELSE /\ IF InsertOrder = "value-key"
                              THEN /\ tabs' = [tabs EXCEPT ![d_t[self]].cells[d_b[self]][d_pos[self][1]][d_pos[self][2]].val = d_r[self][1]]
                              ELSE /\ tabs' = [tabs EXCEPT ![d_t[self]].cells[d_b[self]][d_pos[self][1]][d_pos[self][2]].key = dk[self]]
             /\ pc' = [pc EXCEPT ![self] = "DI2"]
             /\ UNCHANGED << cur, nextGen, resizing, rmu, waiters, clk, done, 
                             fncalls, lres, cres, rvis, pcnt, stack, hint, 
                             known, rz_t, rz_new, rz_b, rz_nb, rz_cnt, lk, l_t, 
                             l_b, l_c, l_cand, l_s, l_v, l_k, kind, dk, dv, 
                             dfn, d_t, d_b, d_pos, d_old, d_r, d_ins, d_fnres, 
                             d_fndone, d_left, r_t, r_b, r_ents, r_i, c_t, ci >>

DI2(self) == /\ pc[self] = "DI2"
             /\ IF Variant = "Map"
                   THEN /\ IF InsertOrder = "value-key"
                              THEN /\ tabs' = [tabs EXCEPT ![d_t[self]].cells[d_b[self]][d_pos[self][1]][d_pos[self][2]].key = dk[self]]
                              ELSE /\ tabs' = [tabs EXCEPT ![d_t[self]].cells[d_b[self]][d_pos[self][1]][d_pos[self][2]].val = d_r[self][1]]
                   ELSE /\ TRUE
                        /\ tabs' = tabs
             /\ pc' = [pc EXCEPT ![self] = "DIu"]
             /\ UNCHANGED << cur, nextGen, resizing, rmu, waiters, clk, done, 
                             fncalls, lres, cres, rvis, pcnt, stack, hint, 
                             known, rz_t, rz_new, rz_b, rz_nb, rz_cnt, lk, l_t, 
                             l_b, l_c, l_cand, l_s, l_v, l_k, kind, dk, dv, 
                             dfn, d_t, d_b, d_pos, d_old, d_r, d_ins, d_fnres, 
                             d_fndone, d_left, r_t, r_b, r_ents, r_i, c_t, ci >>

DIu(self) == /\ pc[self] = "DIu"
             /\ tabs' = [tabs EXCEPT ![d_t[self]].lock[d_b[self]] = None]
             /\ cres' = [cres EXCEPT ![self] = [rv |-> d_r[self][1], ok |-> (kind[self] = "Compute")]]
             /\ pc' = [pc EXCEPT ![self] = "DIa"]
             /\ UNCHANGED << cur, nextGen, resizing, rmu, waiters, clk, done, 
                             fncalls, lres, rvis, pcnt, stack, hint, known, 
                             rz_t, rz_new, rz_b, rz_nb, rz_cnt, lk, l_t, l_b, 
                             l_c, l_cand, l_s, l_v, l_k, kind, dk, dv, dfn, 
                             d_t, d_b, d_pos, d_old, d_r, d_ins, d_fnres, 
                             d_fndone, d_left, r_t, r_b, r_ents, r_i, c_t, ci >>

DIa(self) == /\ pc[self] = "DIa"
             /\ IF SizeTarget = "modified"
                   THEN /\ tabs' = [tabs EXCEPT ![d_t[self]].size = tabs[d_t[self]].size + 1]
                   ELSE /\ tabs' = [tabs EXCEPT ![cur].size = tabs[cur].size + 1]
             /\ pc' = [pc EXCEPT ![self] = Head(stack[self]).pc]
             /\ d_t' = [d_t EXCEPT ![self] = Head(stack[self]).d_t]
             /\ d_b' = [d_b EXCEPT ![self] = Head(stack[self]).d_b]
             /\ d_pos' = [d_pos EXCEPT ![self] = Head(stack[self]).d_pos]
             /\ d_old' = [d_old EXCEPT ![self] = Head(stack[self]).d_old]
             /\ d_r' = [d_r EXCEPT ![self] = Head(stack[self]).d_r]
             /\ d_ins' = [d_ins EXCEPT ![self] = Head(stack[self]).d_ins]
             /\ d_fnres' = [d_fnres EXCEPT ![self] = Head(stack[self]).d_fnres]
             /\ d_fndone' = [d_fndone EXCEPT ![self] = Head(stack[self]).d_fndone]
             /\ d_left' = [d_left EXCEPT ![self] = Head(stack[self]).d_left]
             /\ kind' = [kind EXCEPT ![self] = Head(stack[self]).kind]
             /\ dk' = [dk EXCEPT ![self] = Head(stack[self]).dk]
             /\ dv' = [dv EXCEPT ![self] = Head(stack[self]).dv]
             /\ dfn' = [dfn EXCEPT ![self] = Head(stack[self]).dfn]
             /\ stack' = [stack EXCEPT ![self] = Tail(stack[self])]
             /\ UNCHANGED << cur, nextGen, resizing, rmu, waiters, clk, done, 
                             fncalls, lres, cres, rvis, pcnt, hint, known, 
                             rz_t, rz_new, rz_b, rz_nb, rz_cnt, lk, l_t, l_b, 
                             l_c, l_cand, l_s, l_v, l_k, r_t, r_b, r_ents, r_i, 
                             c_t, ci >>

DG0(self) == /\ pc[self] = "DG0"
             /\ IF FnBeforeRetry /\ ~d_fndone[self]
                   THEN /\ d_fnres' = [d_fnres EXCEPT ![self] = IF kind[self] = "Compute" THEN FnResult(dfn[self], dv[self], NilV, FALSE) ELSE IF kind[self] \in {"LoadAndDelete", "Delete"} THEN <<NilV, TRUE>> ELSE <<dv[self], FALSE>>]
                        /\ fncalls' = [fncalls EXCEPT ![self] = fncalls[self] + (IF kind[self] \in {"Compute", "LoadOrCompute"} THEN 1 ELSE 0)]
                   ELSE /\ TRUE
                        /\ UNCHANGED << fncalls, d_fnres >>
             /\ pc' = [pc EXCEPT ![self] = "DG1"]
             /\ UNCHANGED << tabs, cur, nextGen, resizing, rmu, waiters, clk, 
                             done, lres, cres, rvis, pcnt, stack, hint, known, 
                             rz_t, rz_new, rz_b, rz_nb, rz_cnt, lk, l_t, l_b, 
                             l_c, l_cand, l_s, l_v, l_k, kind, dk, dv, dfn, 
                             d_t, d_b, d_pos, d_old, d_r, d_ins, d_fndone, 
                             d_left, r_t, r_b, r_ents, r_i, c_t, ci >>

DG1(self) == /\ pc[self] = "DG1"
             /\ IF tabs[d_t[self]].size > GrowAt[tabs[d_t[self]].nb]
                   THEN /\ pc' = [pc EXCEPT ![self] = "DGu"]
                   ELSE /\ pc' = [pc EXCEPT ![self] = "DF3"]
             /\ UNCHANGED << tabs, cur, nextGen, resizing, rmu, waiters, clk, 
                             done, fncalls, lres, cres, rvis, pcnt, stack, 
                             hint, known, rz_t, rz_new, rz_b, rz_nb, rz_cnt, 
                             lk, l_t, l_b, l_c, l_cand, l_s, l_v, l_k, kind, 
                             dk, dv, dfn, d_t, d_b, d_pos, d_old, d_r, d_ins, 
                             d_fnres, d_fndone, d_left, r_t, r_b, r_ents, r_i, 
                             c_t, ci >>

DGu(self) == /\ pc[self] = "DGu"
             /\ tabs' = [tabs EXCEPT ![d_t[self]].lock[d_b[self]] = None]
             /\ /\ hint' = [hint EXCEPT ![self] = "grow"]
                /\ known' = [known EXCEPT ![self] = d_t[self]]
                /\ stack' = [stack EXCEPT ![self] = << [ procedure |->  "resize",
                                                         pc        |->  "DGg",
                                                         rz_t      |->  rz_t[self],
                                                         rz_new    |->  rz_new[self],
                                                         rz_b      |->  rz_b[self],
                                                         rz_nb     |->  rz_nb[self],
                                                         rz_cnt    |->  rz_cnt[self],
                                                         hint      |->  hint[self],
                                                         known     |->  known[self] ] >>
                                                     \o stack[self]]
             /\ rz_t' = [rz_t EXCEPT ![self] = 0]
             /\ rz_new' = [rz_new EXCEPT ![self] = 0]
             /\ rz_b' = [rz_b EXCEPT ![self] = 0]
             /\ rz_nb' = [rz_nb EXCEPT ![self] = 0]
             /\ rz_cnt' = [rz_cnt EXCEPT ![self] = 0]
             /\ pc' = [pc EXCEPT ![self] = "RZ0"]
             /\ UNCHANGED << cur, nextGen, resizing, rmu, waiters, clk, done, 
                             fncalls, lres, cres, rvis, pcnt, lk, l_t, l_b, 
                             l_c, l_cand, l_s, l_v, l_k, kind, dk, dv, dfn, 
                             d_t, d_b, d_pos, d_old, d_r, d_ins, d_fnres, 
                             d_fndone, d_left, r_t, r_b, r_ents, r_i, c_t, ci >>

DGg(self) == /\ pc[self] = "DGg"
             /\ pc' = [pc EXCEPT ![self] = "DC1"]
             /\ UNCHANGED << tabs, cur, nextGen, resizing, rmu, waiters, clk, 
                             done, fncalls, lres, cres, rvis, pcnt, stack, 
                             hint, known, rz_t, rz_new, rz_b, rz_nb, rz_cnt, 
                             lk, l_t, l_b, l_c, l_cand, l_s, l_v, l_k, kind, 
                             dk, dv, dfn, d_t, d_b, d_pos, d_old, d_r, d_ins, 
                             d_fnres, d_fndone, d_left, r_t, r_b, r_ents, r_i, 
                             c_t, ci >>

DF3(self) == /\ pc[self] = "DF3"
             /\ d_r' = [d_r EXCEPT ![self] = IF kind[self] = "Compute" THEN FnResult(dfn[self], dv[self], NilV, FALSE) ELSE IF kind[self] \in {"LoadAndDelete", "Delete"} THEN <<NilV, TRUE>> ELSE <<dv[self], FALSE>>]
             /\ fncalls' = [fncalls EXCEPT ![self] = fncalls[self] + (IF kind[self] \in {"Compute", "LoadOrCompute"} /\ ~FnBeforeRetry THEN 1 ELSE 0)]
             /\ IF d_r'[self][2]
                   THEN /\ cres' = [cres EXCEPT ![self] = [rv |-> (IF ZeroOnAbsentDelete THEN NilV ELSE d_r'[self][1]), ok |-> FALSE]]
                        /\ pc' = [pc EXCEPT ![self] = "DCu"]
                   ELSE /\ pc' = [pc EXCEPT ![self] = "DA1"]
                        /\ cres' = cres
             /\ UNCHANGED << tabs, cur, nextGen, resizing, rmu, waiters, clk, 
                             done, lres, rvis, pcnt, stack, hint, known, rz_t, 
                             rz_new, rz_b, rz_nb, rz_cnt, lk, l_t, l_b, l_c, 
                             l_cand, l_s, l_v, l_k, kind, dk, dv, dfn, d_t, 
                             d_b, d_pos, d_old, d_ins, d_fnres, d_fndone, 
                             d_left, r_t, r_b, r_ents, r_i, c_t, ci >>

DA1(self) == /\ pc[self] = "DA1"
             /\ tabs' = [tabs EXCEPT ![d_t[self]].cells[d_b[self]] = PutChain(tabs[d_t[self]].cells[d_b[self]], dk[self], d_r[self][1], 1)]
             /\ d_ins' = [d_ins EXCEPT ![self] = TRUE]
             /\ pc' = [pc EXCEPT ![self] = "DIu"]
             /\ UNCHANGED << cur, nextGen, resizing, rmu, waiters, clk, done, 
                             fncalls, lres, cres, rvis, pcnt, stack, hint, 
                             known, rz_t, rz_new, rz_b, rz_nb, rz_cnt, lk, l_t, 
                             l_b, l_c, l_cand, l_s, l_v, l_k, kind, dk, dv, 
                             dfn, d_t, d_b, d_pos, d_old, d_r, d_fnres, 
                             d_fndone, d_left, r_t, r_b, r_ents, r_i, c_t, ci >>

DCu(self) == /\ pc[self] = "DCu"
             /\ tabs' = [tabs EXCEPT ![d_t[self]].lock[d_b[self]] = None]
             /\ pc' = [pc EXCEPT ![self] = "DCr"]
             /\ UNCHANGED << cur, nextGen, resizing, rmu, waiters, clk, done, 
                             fncalls, lres, cres, rvis, pcnt, stack, hint, 
                             known, rz_t, rz_new, rz_b, rz_nb, rz_cnt, lk, l_t, 
                             l_b, l_c, l_cand, l_s, l_v, l_k, kind, dk, dv, 
                             dfn, d_t, d_b, d_pos, d_old, d_r, d_ins, d_fnres, 
                             d_fndone, d_left, r_t, r_b, r_ents, r_i, c_t, ci >>

DCr(self) == /\ pc[self] = "DCr"
             /\ pc' = [pc EXCEPT ![self] = Head(stack[self]).pc]
             /\ d_t' = [d_t EXCEPT ![self] = Head(stack[self]).d_t]
             /\ d_b' = [d_b EXCEPT ![self] = Head(stack[self]).d_b]
             /\ d_pos' = [d_pos EXCEPT ![self] = Head(stack[self]).d_pos]
             /\ d_old' = [d_old EXCEPT ![self] = Head(stack[self]).d_old]
             /\ d_r' = [d_r EXCEPT ![self] = Head(stack[self]).d_r]
             /\ d_ins' = [d_ins EXCEPT ![self] = Head(stack[self]).d_ins]
             /\ d_fnres' = [d_fnres EXCEPT ![self] = Head(stack[self]).d_fnres]
             /\ d_fndone' = [d_fndone EXCEPT ![self] = Head(stack[self]).d_fndone]
             /\ d_left' = [d_left EXCEPT ![self] = Head(stack[self]).d_left]
             /\ kind' = [kind EXCEPT ![self] = Head(stack[self]).kind]
             /\ dk' = [dk EXCEPT ![self] = Head(stack[self]).dk]
             /\ dv' = [dv EXCEPT ![self] = Head(stack[self]).dv]
             /\ dfn' = [dfn EXCEPT ![self] = Head(stack[self]).dfn]
             /\ stack' = [stack EXCEPT ![self] = Tail(stack[self])]
             /\ UNCHANGED << tabs, cur, nextGen, resizing, rmu, waiters, clk, 
                             done, fncalls, lres, cres, rvis, pcnt, hint, 
                             known, rz_t, rz_new, rz_b, rz_nb, rz_cnt, lk, l_t, 
                             l_b, l_c, l_cand, l_s, l_v, l_k, r_t, r_b, r_ents, 
                             r_i, c_t, ci >>

doCompute(self) == DC0(self) \/ DC0r(self) \/ DC1(self) \/ DC2(self)
                      \/ DC3(self) \/ DC3u(self) \/ DC3g(self)
                      \/ DC3v(self) \/ DC4(self) \/ DC4u(self)
                      \/ DC4v(self) \/ DC4g(self) \/ DC5(self) \/ DF1(self)
                      \/ DD0(self) \/ DD1(self) \/ DD2(self) \/ DDu(self)
                      \/ DDa(self) \/ DDs(self) \/ DDr(self) \/ DS1(self)
                      \/ DF2(self) \/ DI0(self) \/ DI1(self) \/ DI2(self)
                      \/ DIu(self) \/ DIa(self) \/ DG0(self) \/ DG1(self)
                      \/ DGu(self) \/ DGg(self) \/ DF3(self) \/ DA1(self)
                      \/ DCu(self) \/ DCr(self)

R1(self) == /\ pc[self] = "R1"
            /\ r_t' = [r_t EXCEPT ![self] = cur]
            /\ r_b' = [r_b EXCEPT ![self] = 0]
            /\ pc' = [pc EXCEPT ![self] = "R2"]
            /\ UNCHANGED << tabs, cur, nextGen, resizing, rmu, waiters, clk, 
                            done, fncalls, lres, cres, rvis, pcnt, stack, hint, 
                            known, rz_t, rz_new, rz_b, rz_nb, rz_cnt, lk, l_t, 
                            l_b, l_c, l_cand, l_s, l_v, l_k, kind, dk, dv, dfn, 
                            d_t, d_b, d_pos, d_old, d_r, d_ins, d_fnres, 
                            d_fndone, d_left, r_ents, r_i, c_t, ci >>

R2(self) == /\ pc[self] = "R2"
            /\ IF r_b[self] < tabs[r_t[self]].nb
                  THEN /\ pc' = [pc EXCEPT ![self] = "R2l"]
                       /\ UNCHANGED << stack, r_t, r_b, r_ents, r_i >>
                  ELSE /\ pc' = [pc EXCEPT ![self] = Head(stack[self]).pc]
                       /\ r_t' = [r_t EXCEPT ![self] = Head(stack[self]).r_t]
                       /\ r_b' = [r_b EXCEPT ![self] = Head(stack[self]).r_b]
                       /\ r_ents' = [r_ents EXCEPT ![self] = Head(stack[self]).r_ents]
                       /\ r_i' = [r_i EXCEPT ![self] = Head(stack[self]).r_i]
                       /\ stack' = [stack EXCEPT ![self] = Tail(stack[self])]
            /\ UNCHANGED << tabs, cur, nextGen, resizing, rmu, waiters, clk, 
                            done, fncalls, lres, cres, rvis, pcnt, hint, known, 
                            rz_t, rz_new, rz_b, rz_nb, rz_cnt, lk, l_t, l_b, 
                            l_c, l_cand, l_s, l_v, l_k, kind, dk, dv, dfn, d_t, 
                            d_b, d_pos, d_old, d_r, d_ins, d_fnres, d_fndone, 
                            d_left, c_t, ci >>

R2l(self) == /\ pc[self] = "R2l"
             /\ tabs[r_t[self]].lock[r_b[self]] = None
             /\ tabs' = [tabs EXCEPT ![r_t[self]].lock[r_b[self]] = self]
             /\ pc' = [pc EXCEPT ![self] = "R2u"]
             /\ UNCHANGED << cur, nextGen, resizing, rmu, waiters, clk, done, 
                             fncalls, lres, cres, rvis, pcnt, stack, hint, 
                             known, rz_t, rz_new, rz_b, rz_nb, rz_cnt, lk, l_t, 
                             l_b, l_c, l_cand, l_s, l_v, l_k, kind, dk, dv, 
                             dfn, d_t, d_b, d_pos, d_old, d_r, d_ins, d_fnres, 
                             d_fndone, d_left, r_t, r_b, r_ents, r_i, c_t, ci >>

R2u(self) == /\ pc[self] = "R2u"
             /\ r_ents' = [r_ents EXCEPT ![self] = SetToSeq(LiveEntries(tabs[r_t[self]].cells[r_b[self]]))]
             /\ r_i' = [r_i EXCEPT ![self] = 1]
             /\ tabs' = [tabs EXCEPT ![r_t[self]].lock[r_b[self]] = None]
             /\ pc' = [pc EXCEPT ![self] = "R3"]
             /\ UNCHANGED << cur, nextGen, resizing, rmu, waiters, clk, done, 
                             fncalls, lres, cres, rvis, pcnt, stack, hint, 
                             known, rz_t, rz_new, rz_b, rz_nb, rz_cnt, lk, l_t, 
                             l_b, l_c, l_cand, l_s, l_v, l_k, kind, dk, dv, 
                             dfn, d_t, d_b, d_pos, d_old, d_r, d_ins, d_fnres, 
                             d_fndone, d_left, r_t, r_b, c_t, ci >>

R3(self) == /\ pc[self] = "R3"
            /\ IF r_i[self] <= Len(r_ents[self])
                  THEN /\ rvis' = [rvis EXCEPT ![self] = Append(rvis[self], r_ents[self][r_i[self]])]
                       /\ r_i' = [r_i EXCEPT ![self] = r_i[self] + 1]
                       /\ pc' = [pc EXCEPT ![self] = "R3"]
                       /\ UNCHANGED << r_t, r_b >>
                  ELSE /\ r_b' = [r_b EXCEPT ![self] = r_b[self] + 1]
                       /\ IF ~RangeSnapshotsTable
                             THEN /\ r_t' = [r_t EXCEPT ![self] = cur]
                             ELSE /\ TRUE
                                  /\ r_t' = r_t
                       /\ pc' = [pc EXCEPT ![self] = "R2"]
                       /\ UNCHANGED << rvis, r_i >>
            /\ UNCHANGED << tabs, cur, nextGen, resizing, rmu, waiters, clk, 
                            done, fncalls, lres, cres, pcnt, stack, hint, 
                            known, rz_t, rz_new, rz_b, rz_nb, rz_cnt, lk, l_t, 
                            l_b, l_c, l_cand, l_s, l_v, l_k, kind, dk, dv, dfn, 
                            d_t, d_b, d_pos, d_old, d_r, d_ins, d_fnres, 
                            d_fndone, d_left, r_ents, c_t, ci >>

rangeAll(self) == R1(self) \/ R2(self) \/ R2l(self) \/ R2u(self)
                     \/ R3(self)

CL1(self) == /\ pc[self] = "CL1"
             /\ c_t' = [c_t EXCEPT ![self] = cur]
             /\ IF ClearChecksCounter /\ tabs[cur].nb = MinNB /\ tabs[cur].size = 0
                   THEN /\ pc' = [pc EXCEPT ![self] = "CL2"]
                        /\ UNCHANGED << stack, hint, known, rz_t, rz_new, rz_b, 
                                        rz_nb, rz_cnt >>
                   ELSE /\ /\ hint' = [hint EXCEPT ![self] = "clear"]
                           /\ known' = [known EXCEPT ![self] = c_t'[self]]
                           /\ stack' = [stack EXCEPT ![self] = << [ procedure |->  "resize",
                                                                    pc        |->  "CL2",
                                                                    rz_t      |->  rz_t[self],
                                                                    rz_new    |->  rz_new[self],
                                                                    rz_b      |->  rz_b[self],
                                                                    rz_nb     |->  rz_nb[self],
                                                                    rz_cnt    |->  rz_cnt[self],
                                                                    hint      |->  hint[self],
                                                                    known     |->  known[self] ] >>
                                                                \o stack[self]]
                        /\ rz_t' = [rz_t EXCEPT ![self] = 0]
                        /\ rz_new' = [rz_new EXCEPT ![self] = 0]
                        /\ rz_b' = [rz_b EXCEPT ![self] = 0]
                        /\ rz_nb' = [rz_nb EXCEPT ![self] = 0]
                        /\ rz_cnt' = [rz_cnt EXCEPT ![self] = 0]
                        /\ pc' = [pc EXCEPT ![self] = "RZ0"]
             /\ UNCHANGED << tabs, cur, nextGen, resizing, rmu, waiters, clk, 
                             done, fncalls, lres, cres, rvis, pcnt, lk, l_t, 
                             l_b, l_c, l_cand, l_s, l_v, l_k, kind, dk, dv, 
                             dfn, d_t, d_b, d_pos, d_old, d_r, d_ins, d_fnres, 
                             d_fndone, d_left, r_t, r_b, r_ents, r_i, ci >>

CL2(self) == /\ pc[self] = "CL2"
             /\ pc' = [pc EXCEPT ![self] = Head(stack[self]).pc]
             /\ c_t' = [c_t EXCEPT ![self] = Head(stack[self]).c_t]
             /\ stack' = [stack EXCEPT ![self] = Tail(stack[self])]
             /\ UNCHANGED << tabs, cur, nextGen, resizing, rmu, waiters, clk, 
                             done, fncalls, lres, cres, rvis, pcnt, hint, 
                             known, rz_t, rz_new, rz_b, rz_nb, rz_cnt, lk, l_t, 
                             l_b, l_c, l_cand, l_s, l_v, l_k, kind, dk, dv, 
                             dfn, d_t, d_b, d_pos, d_old, d_r, d_ins, d_fnres, 
                             d_fndone, d_left, r_t, r_b, r_ents, r_i, ci >>

clearMap(self) == CL1(self) \/ CL2(self)

Loop(self) == /\ pc[self] = "Loop"
              /\ IF pcnt[self] < Len(Menu[self])
                    THEN /\ pcnt' = [pcnt EXCEPT ![self] = pcnt[self] + 1]
                         /\ clk' = clk + 1
                         /\ ci' = [ci EXCEPT ![self] = clk']
                         /\ fncalls' = [fncalls EXCEPT ![self] = 0]
                         /\ pc' = [pc EXCEPT ![self] = "Disp"]
                    ELSE /\ pc' = [pc EXCEPT ![self] = "Done"]
                         /\ UNCHANGED << clk, fncalls, pcnt, ci >>
              /\ UNCHANGED << tabs, cur, nextGen, resizing, rmu, waiters, done, 
                              lres, cres, rvis, stack, hint, known, rz_t, 
                              rz_new, rz_b, rz_nb, rz_cnt, lk, l_t, l_b, l_c, 
                              l_cand, l_s, l_v, l_k, kind, dk, dv, dfn, d_t, 
                              d_b, d_pos, d_old, d_r, d_ins, d_fnres, d_fndone, 
                              d_left, r_t, r_b, r_ents, r_i, c_t >>

Disp(self) == /\ pc[self] = "Disp"
              /\ IF Op(self).op = "Load"
                    THEN /\ /\ lk' = [lk EXCEPT ![self] = Op(self).k]
                            /\ stack' = [stack EXCEPT ![self] = << [ procedure |->  "load",
                                                                     pc        |->  "Fin",
                                                                     l_t       |->  l_t[self],
                                                                     l_b       |->  l_b[self],
                                                                     l_c       |->  l_c[self],
                                                                     l_cand    |->  l_cand[self],
                                                                     l_s       |->  l_s[self],
                                                                     l_v       |->  l_v[self],
                                                                     l_k       |->  l_k[self],
                                                                     lk        |->  lk[self] ] >>
                                                                 \o stack[self]]
                         /\ l_t' = [l_t EXCEPT ![self] = 0]
                         /\ l_b' = [l_b EXCEPT ![self] = 0]
                         /\ l_c' = [l_c EXCEPT ![self] = 1]
                         /\ l_cand' = [l_cand EXCEPT ![self] = {}]
                         /\ l_s' = [l_s EXCEPT ![self] = 0]
                         /\ l_v' = [l_v EXCEPT ![self] = NilV]
                         /\ l_k' = [l_k EXCEPT ![self] = NilK]
                         /\ pc' = [pc EXCEPT ![self] = "L1"]
                         /\ UNCHANGED << cres, rvis, kind, dk, dv, dfn, d_t, 
                                         d_b, d_pos, d_old, d_r, d_ins, 
                                         d_fnres, d_fndone, d_left, r_t, r_b, 
                                         r_ents, r_i, c_t >>
                    ELSE /\ IF Op(self).op = "Clear"
                               THEN /\ stack' = [stack EXCEPT ![self] = << [ procedure |->  "clearMap",
                                                                             pc        |->  "Fin",
                                                                             c_t       |->  c_t[self] ] >>
                                                                         \o stack[self]]
                                    /\ c_t' = [c_t EXCEPT ![self] = 0]
                                    /\ pc' = [pc EXCEPT ![self] = "CL1"]
                                    /\ UNCHANGED << cres, rvis, kind, dk, dv, 
                                                    dfn, d_t, d_b, d_pos, 
                                                    d_old, d_r, d_ins, d_fnres, 
                                                    d_fndone, d_left, r_t, r_b, 
                                                    r_ents, r_i >>
                               ELSE /\ IF Op(self).op = "Range"
                                          THEN /\ rvis' = [rvis EXCEPT ![self] = <<>>]
                                               /\ stack' = [stack EXCEPT ![self] = << [ procedure |->  "rangeAll",
                                                                                        pc        |->  "Fin",
                                                                                        r_t       |->  r_t[self],
                                                                                        r_b       |->  r_b[self],
                                                                                        r_ents    |->  r_ents[self],
                                                                                        r_i       |->  r_i[self] ] >>
                                                                                    \o stack[self]]
                                               /\ r_t' = [r_t EXCEPT ![self] = 0]
                                               /\ r_b' = [r_b EXCEPT ![self] = 0]
                                               /\ r_ents' = [r_ents EXCEPT ![self] = <<>>]
                                               /\ r_i' = [r_i EXCEPT ![self] = 1]
                                               /\ pc' = [pc EXCEPT ![self] = "R1"]
                                               /\ UNCHANGED << cres, kind, dk, 
                                                               dv, dfn, d_t, 
                                                               d_b, d_pos, 
                                                               d_old, d_r, 
                                                               d_ins, d_fnres, 
                                                               d_fndone, 
                                                               d_left >>
                                          ELSE /\ IF Op(self).op = "Size"
                                                     THEN /\ cres' = [cres EXCEPT ![self] = [rv |-> NilV, ok |-> FALSE]]
                                                          /\ pc' = [pc EXCEPT ![self] = "Fin"]
                                                          /\ UNCHANGED << stack, 
                                                                          kind, 
                                                                          dk, 
                                                                          dv, 
                                                                          dfn, 
                                                                          d_t, 
                                                                          d_b, 
                                                                          d_pos, 
                                                                          d_old, 
                                                                          d_r, 
                                                                          d_ins, 
                                                                          d_fnres, 
                                                                          d_fndone, 
                                                                          d_left >>
                                                     ELSE /\ /\ dfn' = [dfn EXCEPT ![self] = Op(self).fn]
                                                             /\ dk' = [dk EXCEPT ![self] = Op(self).k]
                                                             /\ dv' = [dv EXCEPT ![self] = Op(self).v]
                                                             /\ kind' = [kind EXCEPT ![self] = Op(self).op]
                                                             /\ stack' = [stack EXCEPT ![self] = << [ procedure |->  "doCompute",
                                                                                                      pc        |->  "Fin",
                                                                                                      d_t       |->  d_t[self],
                                                                                                      d_b       |->  d_b[self],
                                                                                                      d_pos     |->  d_pos[self],
                                                                                                      d_old     |->  d_old[self],
                                                                                                      d_r       |->  d_r[self],
                                                                                                      d_ins     |->  d_ins[self],
                                                                                                      d_fnres   |->  d_fnres[self],
                                                                                                      d_fndone  |->  d_fndone[self],
                                                                                                      d_left    |->  d_left[self],
                                                                                                      kind      |->  kind[self],
                                                                                                      dk        |->  dk[self],
                                                                                                      dv        |->  dv[self],
                                                                                                      dfn       |->  dfn[self] ] >>
                                                                                                  \o stack[self]]
                                                          /\ d_t' = [d_t EXCEPT ![self] = 0]
                                                          /\ d_b' = [d_b EXCEPT ![self] = 0]
                                                          /\ d_pos' = [d_pos EXCEPT ![self] = <<0, 0>>]
                                                          /\ d_old' = [d_old EXCEPT ![self] = NilV]
                                                          /\ d_r' = [d_r EXCEPT ![self] = <<NilV, FALSE>>]
                                                          /\ d_ins' = [d_ins EXCEPT ![self] = FALSE]
                                                          /\ d_fnres' = [d_fnres EXCEPT ![self] = <<NilV, FALSE>>]
                                                          /\ d_fndone' = [d_fndone EXCEPT ![self] = FALSE]
                                                          /\ d_left' = [d_left EXCEPT ![self] = FALSE]
                                                          /\ pc' = [pc EXCEPT ![self] = "DC0"]
                                                          /\ cres' = cres
                                               /\ UNCHANGED << rvis, r_t, r_b, 
                                                               r_ents, r_i >>
                                    /\ c_t' = c_t
                         /\ UNCHANGED << lk, l_t, l_b, l_c, l_cand, l_s, l_v, 
                                         l_k >>
              /\ UNCHANGED << tabs, cur, nextGen, resizing, rmu, waiters, clk, 
                              done, fncalls, lres, pcnt, hint, known, rz_t, 
                              rz_new, rz_b, rz_nb, rz_cnt, ci >>

Fin(self) == /\ pc[self] = "Fin"
             /\ clk' = clk + 1
             /\ IF Op(self).op = "Range"
                   THEN /\ done' = (done \cup {[t |-> self, call |-> [Op(self) EXCEPT !.op = "rbegin"], ci |-> ci[self], ri |-> ci[self], vis |-> <<>>, res |-> [rv |-> NilV, ok |-> FALSE, n |-> 0]],
                                               [t |-> self, call |-> [Op(self) EXCEPT !.op = "rend"], ci |-> clk', ri |-> clk', vis |-> rvis[self], res |-> [rv |-> NilV, ok |-> FALSE, n |-> 0]]})
                   ELSE /\ done' = (done \cup {[t |-> self, call |-> Op(self), ci |-> ci[self], ri |-> clk', vis |-> <<>>,
                                                res |-> [rv |-> (IF Op(self).op = "Load" THEN lres[self].rv ELSE cres[self].rv),
                                                         ok |-> (IF Op(self).op = "Load" THEN lres[self].ok ELSE cres[self].ok),
                                                         n |-> (IF Op(self).op \in {"Compute", "LoadOrCompute"} THEN fncalls[self] ELSE 0)]]})
             /\ pc' = [pc EXCEPT ![self] = "Loop"]
             /\ UNCHANGED << tabs, cur, nextGen, resizing, rmu, waiters, 
                             fncalls, lres, cres, rvis, pcnt, stack, hint, 
                             known, rz_t, rz_new, rz_b, rz_nb, rz_cnt, lk, l_t, 
                             l_b, l_c, l_cand, l_s, l_v, l_k, kind, dk, dv, 
                             dfn, d_t, d_b, d_pos, d_old, d_r, d_ins, d_fnres, 
                             d_fndone, d_left, r_t, r_b, r_ents, r_i, c_t, ci >>

thr(self) == Loop(self) \/ Disp(self) \/ Fin(self)

(* Allow infinite stuttering to prevent deadlock on termination. *)
Terminating == /\ \A self \in ProcSet: pc[self] = "Done"
               /\ UNCHANGED vars

Next == (\E self \in ProcSet:  \/ waitForResize(self) \/ resize(self)
                               \/ load(self) \/ doCompute(self)
                               \/ rangeAll(self) \/ clearMap(self))
           \/ (\E self \in Threads: thr(self))
           \/ Terminating

Spec == /\ Init /\ [][Next]_vars
        /\ \A self \in Threads : /\ WF_vars(thr(self))
                                 /\ WF_vars(load(self))
                                 /\ WF_vars(clearMap(self))
                                 /\ WF_vars(rangeAll(self))
                                 /\ WF_vars(doCompute(self))
                                 /\ WF_vars(waitForResize(self))
                                 /\ WF_vars(resize(self))

Termination == <>(\A self \in ProcSet: pc[self] = "Done")

\* END TRANSLATION

AllDone == \A t \in Threads : pc[t] = "Done"

\* ---- properties ----
Linearizable == AllDone => LinSearch(InitM, done, <<>>, PhysM(tabs[cur]), tabs[cur].size)
NoDuplicateKeys == \A g \in 0..MaxGen : NoDup(tabs[g])
LocksReleased == AllDone => /\ \A g \in 0..MaxGen : \A b \in 0..(tabs[g].nb - 1) : tabs[g].lock[b] = None
                            /\ rmu = None /\ ~resizing /\ waiters = {}
FnCounts == \A o \in done : (o.call.op = "Compute" => o.res.n = 1) /\ (o.call.op = "LoadOrCompute" => o.res.n = (IF o.res.ok THEN 0 ELSE 1))
EventuallyDone == <>AllDone
=============================================================================

---------------------------- MODULE CLHT_Freeze ----------------------------
(***************************************************************************)
(* C16 on the implementation-shaped machine: lookups never wait.           *)
(*                                                                         *)
(* At any reachable state of CLHT the environment may FREEZE every thread  *)
(* except a designated reader (a goroutine stalled inside a user function, *)
(* between two atomic operations, in the middle of a table copy, ...).     *)
(* From then on only the reader steps.  It must never be blocked (TLC      *)
(* deadlock check: a frozen state in which the reader is not done has a    *)
(* successor) and must finish within Bound own steps (invariant).          *)
(* The reader's menu consists of Load calls only.                          *)
(***************************************************************************)
EXTENDS MC_CLHT

CONSTANTS Reader, Bound

VARIABLES frozen, fsteps
fvars == <<vars, frozen, fsteps>>

ThreadStep(t) == thr(t) \/ load(t) \/ doCompute(t) \/ resize(t) \/ waitForResize(t) \/ rangeAll(t) \/ clearMap(t)

FInit == Init /\ frozen = FALSE /\ fsteps = 0

FNext ==
  \/ ~frozen /\ (\E t \in Threads : ThreadStep(t)) /\ UNCHANGED <<frozen, fsteps>>
  \/ ~frozen /\ pc[Reader] # "Done" /\ frozen' = TRUE /\ fsteps' = 0 /\ UNCHANGED vars
  \/ frozen /\ ThreadStep(Reader) /\ fsteps' = fsteps + 1 /\ UNCHANGED frozen
  \/ (frozen \/ \A t \in Threads : pc[t] = "Done") /\ pc[Reader] = "Done" /\ UNCHANGED fvars

FSpec == FInit /\ [][FNext]_fvars

ReaderBounded == frozen => fsteps <= Bound
=============================================================================

------------------------------ MODULE CacheImpl ------------------------------
(***************************************************************************)
(* Implementation-shaped CONCURRENT machine of the cache layer             *)
(* (xsync_map.go / xsync_mapof.go) over an ATOMIC map: every call on the   *)
(* underlying Map/MapOf is one step (that it behaves atomically is C03/C04,*)
(* decided by CLHT / MapLin); what is modelled here is how the cache       *)
(* methods COMPOSE those calls:                                            *)
(*                                                                         *)
(*   get            Load; if the loaded item is expired: Compute           *)
(*                  (re-validate, delete or keep the newer value)          *)
(*   GetOrSet, GetAndSet, GetAndRefresh, GetOrCompute, Compute             *)
(*                  one Compute whose closure checks expiry under the lock *)
(*   GetAndDelete   LoadAndDelete; read callback; fire callback            *)
(*   DeleteExpired  read callback; read clock; Range (one atomic visit per *)
(*                  key); for an entry expired in the snapshot: Compute    *)
(*                  that re-validates and records the removed instance;    *)
(*                  callbacks after the traversal                          *)
(*   Clear, Set*, SetDefaultExpiration, SetEvictedCallback  one step       *)
(*                                                                         *)
(* The clock is frozen (constant Now), as in the scheduler runs.  The      *)
(* machine records the API-level history (call / ret / evict events, the   *)
(* same records the Go harness writes) and prints every terminal history;  *)
(* the driver validates them with Trace_CacheLin - the same oracle that    *)
(* judges the real code.                                                   *)
(*                                                                         *)
(* Design switches: DeleteExpiredRevalidates (FALSE = delete by key after  *)
(* the unlocked test, callback carries the snapshot value: defect D2),     *)
(* LazyDeleteRevalidates, GetAndDeleteChecksExpiry (FALSE: defect D1),     *)
(* CallbackReadOncePerPass.                                                *)
(***************************************************************************)
EXTENDS Integers, Sequences, FiniteSets, TLC, Json

CONSTANTS Threads, Keys, Menu, Preload, Now, Def0, Cb0, NoExp, DefExp,
          DeleteExpiredRevalidates, LazyDeleteRevalidates, GetAndDeleteChecksExpiry, CallbackReadOncePerPass

NilV == "nil"
Absent == [v |-> NilV, e |-> 0 - 1]          \* e = -1 marks "no item"
Has(it) == it.e >= 0
Expired(it) == it.e > 0 /\ Now > it.e
Exp(d, def) == LET d1 == IF d = DefExp THEN def ELSE d IN IF d1 > 0 THEN Now + d1 ELSE 0

FnResult(fn, v, old, loaded) ==
  CASE fn = "set"         -> <<v, FALSE>>
    [] fn = "del"         -> <<NilV, TRUE>>
    [] fn = "delret"      -> <<v, TRUE>>
    [] fn = "keep"        -> <<old, FALSE>>
    [] fn = "toggle"      -> IF loaded THEN <<NilV, TRUE>> ELSE <<v, FALSE>>
    [] fn = "setifabsent" -> IF loaded THEN <<old, FALSE>> ELSE <<v, FALSE>>

BaseEv == [ev |-> "", t |-> 0, op |-> "", k |-> "", v |-> "", d |-> 0, fn |-> "", lo |-> 0, hi |-> 0, rv |-> NilV, ok |-> FALSE,
           x |-> 0, n |-> 0, fo |-> NilV, fl |-> FALSE, cb |-> "", vis |-> <<>>]
CallEv(t, c) == [BaseEv EXCEPT !.ev = "call", !.t = t, !.op = c.op, !.k = c.k, !.v = c.v, !.d = c.d, !.fn = c.fn]
RetEv(t, c, r) == [BaseEv EXCEPT !.ev = "ret", !.t = t, !.op = c.op, !.k = c.k, !.rv = r.rv, !.ok = r.ok, !.x = r.x, !.n = r.n, !.fo = r.fo, !.fl = r.fl]
EvictEv(t, cbid, k, v) == [BaseEv EXCEPT !.ev = "evict", !.t = t, !.cb = cbid, !.k = k, !.v = v]
NoRes == [rv |-> NilV, ok |-> FALSE, x |-> 0, n |-> 0, fo |-> NilV, fl |-> FALSE]

KeySeq == CHOOSE s \in [1..Cardinality(Keys) -> Keys] : \A i, j \in 1..Cardinality(Keys) : i # j => s[i] # s[j]

(* --algorithm cacheimpl
variables
  items = [k \in Keys |-> IF k \in DOMAIN Preload THEN Preload[k] ELSE Absent],
  def = Def0, cb = Cb0,
  hist = <<>>,
  pcnt = [t \in Threads |-> 0],
  res = [t \in Threads |-> NoRes];

define
  Op(t) == Menu[t][pcnt[t]]
end define;

procedure get(gk)
begin
G1: if ~Has(items[gk]) then res[self] := NoRes; return;      \* c.items.Load(k)
    elsif ~Expired(items[gk]) then res[self] := [NoRes EXCEPT !.rv = items[gk].v, !.ok = TRUE, !.x = items[gk].e]; return;
    end if;
G2: \* double check or delete: c.items.Compute(k, ...)
    if LazyDeleteRevalidates /\ Has(items[gk]) /\ ~Expired(items[gk]) then
      res[self] := [NoRes EXCEPT !.rv = items[gk].v, !.ok = TRUE, !.x = items[gk].e];       \* k has a new value
    else
      items[gk] := Absent; res[self] := NoRes;
    end if;
    return;
end procedure;

procedure getAndDelete(dk, wantResult)
variables d_it = Absent, d_cb = "";
begin
GD1: d_it := items[dk]; items[dk] := Absent;                 \* c.items.LoadAndDelete(k)
     if ~Has(d_it) then goto GD4; end if;
GD2: d_cb := cb;                                             \* c.EvictedCallback()
GD3: if d_cb # "" then hist := Append(hist, EvictEv(self, d_cb, dk, d_it.v)); end if;   \* ec(k, i.v)
GD4: res[self] := IF ~Has(d_it) \/ (GetAndDeleteChecksExpiry /\ Expired(d_it)) THEN NoRes ELSE [NoRes EXCEPT !.rv = d_it.v, !.ok = TRUE];
     return;
end procedure;

procedure deleteExpired()
variables e_cb = "", e_i = 1, e_snap = Absent, e_out = <<>>, e_j = 1;
begin
DE1: e_cb := cb;                                             \* ec := c.EvictedCallback()
DE2: e_i := 1;                                               \* now := time.Now() (frozen clock)
DE3: while e_i <= Cardinality(Keys) do
       e_snap := items[KeySeq[e_i]];                          \* Range visits (k, v): the bucket snapshot
       if Has(e_snap) /\ Expired(e_snap) then
DE3c:    if DeleteExpiredRevalidates then                     \* c.items.Compute(k, re-validate)
           if Has(items[KeySeq[e_i]]) /\ Expired(items[KeySeq[e_i]]) then
             if e_cb # "" then e_out := Append(e_out, [k |-> KeySeq[e_i], v |-> items[KeySeq[e_i]].v]); end if;
             items[KeySeq[e_i]] := Absent;
           end if;
         else                                                 \* c.items.Delete(k) after the unlocked test
           if e_cb # "" then e_out := Append(e_out, [k |-> KeySeq[e_i], v |-> e_snap.v]); end if;
           items[KeySeq[e_i]] := Absent;
         end if;
       end if;
DE3n:  e_i := e_i + 1;
     end while;
DE4: while e_j <= Len(e_out) do                              \* for _, v := range evictedItems { ec(v.k, v.v) }
       hist := Append(hist, EvictEv(self, IF CallbackReadOncePerPass THEN e_cb ELSE cb, e_out[e_j].k, e_out[e_j].v));
       e_j := e_j + 1;
     end while;
DE5: res[self] := NoRes;
     return;
end procedure;

process thr \in Threads
begin
Loop: while pcnt[self] < Len(Menu[self]) do
        pcnt[self] := pcnt[self] + 1;
        hist := Append(hist, CallEv(self, Menu[self][pcnt[self]]));
Disp:   if Op(self).op \in {"Get", "GetWithExpiration", "GetWithTTL"} then
          call get(Op(self).k);
        elsif Op(self).op = "GetAndDelete" then call getAndDelete(Op(self).k, TRUE);
        elsif Op(self).op = "Delete" then call getAndDelete(Op(self).k, FALSE);
        elsif Op(self).op = "DeleteExpired" then call deleteExpired();
        elsif Op(self).op \in {"Set", "SetDefault", "SetForever"} then                  \* c.items.Store
          items[Op(self).k] := [v |-> Op(self).v, e |-> Exp(IF Op(self).op = "SetDefault" THEN DefExp ELSE IF Op(self).op = "SetForever" THEN NoExp ELSE Op(self).d, def)];
          res[self] := NoRes;
        elsif Op(self).op = "Clear" then
          items := [k \in Keys |-> Absent]; res[self] := NoRes;
        elsif Op(self).op = "SetDefaultExpiration" then def := Op(self).d; res[self] := NoRes;
        elsif Op(self).op = "SetEvictedCallback" then cb := IF Op(self).fn = "nil" THEN "" ELSE Op(self).fn; res[self] := NoRes;
        else
          \* the single-Compute methods: the closure sees the current item under the bucket lock
          with it = items[Op(self).k], live = Has(it) /\ ~Expired(it), c = Op(self) do
            if c.op = "GetOrSet" then
              if live then res[self] := [NoRes EXCEPT !.rv = it.v, !.ok = TRUE];
              else items[c.k] := [v |-> c.v, e |-> Exp(c.d, def)]; res[self] := [NoRes EXCEPT !.rv = c.v]; end if;
            elsif c.op = "GetOrCompute" then
              if live then res[self] := [NoRes EXCEPT !.rv = it.v, !.ok = TRUE];
              else items[c.k] := [v |-> c.v, e |-> Exp(c.d, def)]; res[self] := [NoRes EXCEPT !.rv = c.v, !.n = 1]; end if;
            elsif c.op = "GetAndSet" then
              items[c.k] := [v |-> c.v, e |-> Exp(c.d, def)];
              res[self] := IF live THEN [NoRes EXCEPT !.rv = it.v, !.ok = TRUE] ELSE [NoRes EXCEPT !.rv = c.v];
            elsif c.op = "GetAndRefresh" then
              if live then items[c.k] := [v |-> it.v, e |-> Exp(c.d, def)]; res[self] := [NoRes EXCEPT !.rv = it.v, !.ok = TRUE];
              else items[c.k] := Absent; res[self] := NoRes; end if;
            elsif c.op = "Compute" then
              with old = IF live THEN it.v ELSE NilV, r = FnResult(c.fn, c.v, old, live) do
                if r[2] then items[c.k] := Absent; res[self] := [NoRes EXCEPT !.rv = old, !.n = 1, !.fo = old, !.fl = live];
                else items[c.k] := [v |-> r[1], e |-> Exp(c.d, def)]; res[self] := [NoRes EXCEPT !.rv = r[1], !.ok = TRUE, !.n = 1, !.fo = old, !.fl = live]; end if;
              end with;
            else
              res[self] := NoRes;
            end if;
          end with;
        end if;
Fin:    hist := Append(hist, RetEv(self, Op(self),
                  IF Op(self).op = "GetWithTTL" THEN [res[self] EXCEPT !.x = IF ~res[self].ok THEN 0 ELSE IF res[self].x > 0 THEN res[self].x - Now ELSE NoExp]
                  ELSE IF Op(self).op = "Get" THEN [res[self] EXCEPT !.x = 0] ELSE res[self]));
      end while;
end process;
end algorithm; *)
\* BEGIN TRANSLATION
CONSTANT defaultInitValue
VARIABLES pc, items, def, cb, hist, pcnt, res, stack

(* define statement *)
Op(t) == Menu[t][pcnt[t]]

VARIABLES gk, dk, wantResult, d_it, d_cb, e_cb, e_i, e_snap, e_out, e_j

vars == << pc, items, def, cb, hist, pcnt, res, stack, gk, dk, wantResult, 
           d_it, d_cb, e_cb, e_i, e_snap, e_out, e_j >>

ProcSet == (Threads)

Init == (* Global variables *)
        /\ items = [k \in Keys |-> IF k \in DOMAIN Preload THEN Preload[k] ELSE Absent]
        /\ def = Def0
        /\ cb = Cb0
        /\ hist = <<>>
        /\ pcnt = [t \in Threads |-> 0]
        /\ res = [t \in Threads |-> NoRes]
        (* Procedure get *)
        /\ gk = [ self \in ProcSet |-> defaultInitValue]
        (* Procedure getAndDelete *)
        /\ dk = [ self \in ProcSet |-> defaultInitValue]
        /\ wantResult = [ self \in ProcSet |-> defaultInitValue]
        /\ d_it = [ self \in ProcSet |-> Absent]
        /\ d_cb = [ self \in ProcSet |-> ""]
        (* Procedure deleteExpired *)
        /\ e_cb = [ self \in ProcSet |-> ""]
        /\ e_i = [ self \in ProcSet |-> 1]
        /\ e_snap = [ self \in ProcSet |-> Absent]
        /\ e_out = [ self \in ProcSet |-> <<>>]
        /\ e_j = [ self \in ProcSet |-> 1]
        /\ stack = [self \in ProcSet |-> << >>]
        /\ pc = [self \in ProcSet |-> "Loop"]

G1(self) == /\ pc[self] = "G1"
            /\ IF ~Has(items[gk[self]])
                  THEN /\ res' = [res EXCEPT ![self] = NoRes]
                       /\ pc' = [pc EXCEPT ![self] = Head(stack[self]).pc]
                       /\ gk' = [gk EXCEPT ![self] = Head(stack[self]).gk]
                       /\ stack' = [stack EXCEPT ![self] = Tail(stack[self])]
                  ELSE /\ IF ~Expired(items[gk[self]])
                             THEN /\ res' = [res EXCEPT ![self] = [NoRes EXCEPT !.rv = items[gk[self]].v, !.ok = TRUE, !.x = items[gk[self]].e]]
                                  /\ pc' = [pc EXCEPT ![self] = Head(stack[self]).pc]
                                  /\ gk' = [gk EXCEPT ![self] = Head(stack[self]).gk]
                                  /\ stack' = [stack EXCEPT ![self] = Tail(stack[self])]
                             ELSE /\ pc' = [pc EXCEPT ![self] = "G2"]
                                  /\ UNCHANGED << res, stack, gk >>
            /\ UNCHANGED << items, def, cb, hist, pcnt, dk, wantResult, d_it, 
                            d_cb, e_cb, e_i, e_snap, e_out, e_j >>

G2(self) == /\ pc[self] = "G2"
            /\ IF LazyDeleteRevalidates /\ Has(items[gk[self]]) /\ ~Expired(items[gk[self]])
                  THEN /\ res' = [res EXCEPT ![self] = [NoRes EXCEPT !.rv = items[gk[self]].v, !.ok = TRUE, !.x = items[gk[self]].e]]
                       /\ items' = items
                  ELSE /\ items' = [items EXCEPT ![gk[self]] = Absent]
                       /\ res' = [res EXCEPT ![self] = NoRes]
            /\ pc' = [pc EXCEPT ![self] = Head(stack[self]).pc]
            /\ gk' = [gk EXCEPT ![self] = Head(stack[self]).gk]
            /\ stack' = [stack EXCEPT ![self] = Tail(stack[self])]
            /\ UNCHANGED << def, cb, hist, pcnt, dk, wantResult, d_it, d_cb, 
                            e_cb, e_i, e_snap, e_out, e_j >>

get(self) == G1(self) \/ G2(self)

GD1(self) == /\ pc[self] = "GD1"
             /\ d_it' = [d_it EXCEPT ![self] = items[dk[self]]]
             /\ items' = [items EXCEPT ![dk[self]] = Absent]
             /\ IF ~Has(d_it'[self])
                   THEN /\ pc' = [pc EXCEPT ![self] = "GD4"]
                   ELSE /\ pc' = [pc EXCEPT ![self] = "GD2"]
             /\ UNCHANGED << def, cb, hist, pcnt, res, stack, gk, dk, 
                             wantResult, d_cb, e_cb, e_i, e_snap, e_out, e_j >>

GD2(self) == /\ pc[self] = "GD2"
             /\ d_cb' = [d_cb EXCEPT ![self] = cb]
             /\ pc' = [pc EXCEPT ![self] = "GD3"]
             /\ UNCHANGED << items, def, cb, hist, pcnt, res, stack, gk, dk, 
                             wantResult, d_it, e_cb, e_i, e_snap, e_out, e_j >>

GD3(self) == /\ pc[self] = "GD3"
             /\ IF d_cb[self] # ""
                   THEN /\ hist' = Append(hist, EvictEv(self, d_cb[self], dk[self], d_it[self].v))
                   ELSE /\ TRUE
                        /\ hist' = hist
             /\ pc' = [pc EXCEPT ![self] = "GD4"]
             /\ UNCHANGED << items, def, cb, pcnt, res, stack, gk, dk, 
                             wantResult, d_it, d_cb, e_cb, e_i, e_snap, e_out, 
                             e_j >>

GD4(self) == /\ pc[self] = "GD4"
             /\ res' = [res EXCEPT ![self] = IF ~Has(d_it[self]) \/ (GetAndDeleteChecksExpiry /\ Expired(d_it[self])) THEN NoRes ELSE [NoRes EXCEPT !.rv = d_it[self].v, !.ok = TRUE]]
             /\ pc' = [pc EXCEPT ![self] = Head(stack[self]).pc]
             /\ d_it' = [d_it EXCEPT ![self] = Head(stack[self]).d_it]
             /\ d_cb' = [d_cb EXCEPT ![self] = Head(stack[self]).d_cb]
             /\ dk' = [dk EXCEPT ![self] = Head(stack[self]).dk]
             /\ wantResult' = [wantResult EXCEPT ![self] = Head(stack[self]).wantResult]
             /\ stack' = [stack EXCEPT ![self] = Tail(stack[self])]
             /\ UNCHANGED << items, def, cb, hist, pcnt, gk, e_cb, e_i, e_snap, 
                             e_out, e_j >>

getAndDelete(self) == GD1(self) \/ GD2(self) \/ GD3(self) \/ GD4(self)

DE1(self) == /\ pc[self] = "DE1"
             /\ e_cb' = [e_cb EXCEPT ![self] = cb]
             /\ pc' = [pc EXCEPT ![self] = "DE2"]
             /\ UNCHANGED << items, def, cb, hist, pcnt, res, stack, gk, dk, 
                             wantResult, d_it, d_cb, e_i, e_snap, e_out, e_j >>

DE2(self) == /\ pc[self] = "DE2"
             /\ e_i' = [e_i EXCEPT ![self] = 1]
             /\ pc' = [pc EXCEPT ![self] = "DE3"]
             /\ UNCHANGED << items, def, cb, hist, pcnt, res, stack, gk, dk, 
                             wantResult, d_it, d_cb, e_cb, e_snap, e_out, e_j >>

DE3(self) == /\ pc[self] = "DE3"
             /\ IF e_i[self] <= Cardinality(Keys)
                   THEN /\ e_snap' = [e_snap EXCEPT ![self] = items[KeySeq[e_i[self]]]]
                        /\ IF Has(e_snap'[self]) /\ Expired(e_snap'[self])
                              THEN /\ pc' = [pc EXCEPT ![self] = "DE3c"]
                              ELSE /\ pc' = [pc EXCEPT ![self] = "DE3n"]
                   ELSE /\ pc' = [pc EXCEPT ![self] = "DE4"]
                        /\ UNCHANGED e_snap
             /\ UNCHANGED << items, def, cb, hist, pcnt, res, stack, gk, dk, 
                             wantResult, d_it, d_cb, e_cb, e_i, e_out, e_j >>

DE3n(self) == /\ pc[self] = "DE3n"
              /\ e_i' = [e_i EXCEPT ![self] = e_i[self] + 1]
              /\ pc' = [pc EXCEPT ![self] = "DE3"]
              /\ UNCHANGED << items, def, cb, hist, pcnt, res, stack, gk, dk, 
                              wantResult, d_it, d_cb, e_cb, e_snap, e_out, e_j >>

DE3c(self) == /\ pc[self] = "DE3c"
              /\ IF DeleteExpiredRevalidates
                    THEN /\ IF Has(items[KeySeq[e_i[self]]]) /\ Expired(items[KeySeq[e_i[self]]])
                               THEN /\ IF e_cb[self] # ""
                                          THEN /\ e_out' = [e_out EXCEPT ![self] = Append(e_out[self], [k |-> KeySeq[e_i[self]], v |-> items[KeySeq[e_i[self]]].v])]
                                          ELSE /\ TRUE
                                               /\ e_out' = e_out
                                    /\ items' = [items EXCEPT ![KeySeq[e_i[self]]] = Absent]
                               ELSE /\ TRUE
                                    /\ UNCHANGED << items, e_out >>
                    ELSE /\ IF e_cb[self] # ""
                               THEN /\ e_out' = [e_out EXCEPT ![self] = Append(e_out[self], [k |-> KeySeq[e_i[self]], v |-> e_snap[self].v])]
                               ELSE /\ TRUE
                                    /\ e_out' = e_out
                         /\ items' = [items EXCEPT ![KeySeq[e_i[self]]] = Absent]
              /\ pc' = [pc EXCEPT ![self] = "DE3n"]
              /\ UNCHANGED << def, cb, hist, pcnt, res, stack, gk, dk, 
                              wantResult, d_it, d_cb, e_cb, e_i, e_snap, e_j >>

DE4(self) == /\ pc[self] = "DE4"
             /\ IF e_j[self] <= Len(e_out[self])
                   THEN /\ hist' = Append(hist, EvictEv(self, IF CallbackReadOncePerPass THEN e_cb[self] ELSE cb, e_out[self][e_j[self]].k, e_out[self][e_j[self]].v))
                        /\ e_j' = [e_j EXCEPT ![self] = e_j[self] + 1]
                        /\ pc' = [pc EXCEPT ![self] = "DE4"]
                   ELSE /\ pc' = [pc EXCEPT ![self] = "DE5"]
                        /\ UNCHANGED << hist, e_j >>
             /\ UNCHANGED << items, def, cb, pcnt, res, stack, gk, dk, 
                             wantResult, d_it, d_cb, e_cb, e_i, e_snap, e_out >>

DE5(self) == /\ pc[self] = "DE5"
             /\ res' = [res EXCEPT ![self] = NoRes]
             /\ pc' = [pc EXCEPT ![self] = Head(stack[self]).pc]
             /\ e_cb' = [e_cb EXCEPT ![self] = Head(stack[self]).e_cb]
             /\ e_i' = [e_i EXCEPT ![self] = Head(stack[self]).e_i]
             /\ e_snap' = [e_snap EXCEPT ![self] = Head(stack[self]).e_snap]
             /\ e_out' = [e_out EXCEPT ![self] = Head(stack[self]).e_out]
             /\ e_j' = [e_j EXCEPT ![self] = Head(stack[self]).e_j]
             /\ stack' = [stack EXCEPT ![self] = Tail(stack[self])]
             /\ UNCHANGED << items, def, cb, hist, pcnt, gk, dk, wantResult, 
                             d_it, d_cb >>

deleteExpired(self) == DE1(self) \/ DE2(self) \/ DE3(self) \/ DE3n(self)
                          \/ DE3c(self) \/ DE4(self) \/ DE5(self)

Loop(self) == /\ pc[self] = "Loop"
              /\ IF pcnt[self] < Len(Menu[self])
                    THEN /\ pcnt' = [pcnt EXCEPT ![self] = pcnt[self] + 1]
                         /\ hist' = Append(hist, CallEv(self, Menu[self][pcnt'[self]]))
                         /\ pc' = [pc EXCEPT ![self] = "Disp"]
                    ELSE /\ pc' = [pc EXCEPT ![self] = "Done"]
                         /\ UNCHANGED << hist, pcnt >>
              /\ UNCHANGED << items, def, cb, res, stack, gk, dk, wantResult, 
                              d_it, d_cb, e_cb, e_i, e_snap, e_out, e_j >>

Disp(self) == /\ pc[self] = "Disp"
              /\ IF Op(self).op \in {"Get", "GetWithExpiration", "GetWithTTL"}
                    THEN /\ /\ gk' = [gk EXCEPT ![self] = Op(self).k]
                            /\ stack' = [stack EXCEPT ![self] = << [ procedure |->  "get",
                                                                     pc        |->  "Fin",
                                                                     gk        |->  gk[self] ] >>
                                                                 \o stack[self]]
                         /\ pc' = [pc EXCEPT ![self] = "G1"]
                         /\ UNCHANGED << items, def, cb, res, dk, wantResult, 
                                         d_it, d_cb, e_cb, e_i, e_snap, e_out, 
                                         e_j >>
                    ELSE /\ IF Op(self).op = "GetAndDelete"
                               THEN /\ /\ dk' = [dk EXCEPT ![self] = Op(self).k]
                                       /\ stack' = [stack EXCEPT ![self] = << [ procedure |->  "getAndDelete",
                                                                                pc        |->  "Fin",
                                                                                d_it      |->  d_it[self],
                                                                                d_cb      |->  d_cb[self],
                                                                                dk        |->  dk[self],
                                                                                wantResult |->  wantResult[self] ] >>
                                                                            \o stack[self]]
                                       /\ wantResult' = [wantResult EXCEPT ![self] = TRUE]
                                    /\ d_it' = [d_it EXCEPT ![self] = Absent]
                                    /\ d_cb' = [d_cb EXCEPT ![self] = ""]
                                    /\ pc' = [pc EXCEPT ![self] = "GD1"]
                                    /\ UNCHANGED << items, def, cb, res, e_cb, 
                                                    e_i, e_snap, e_out, e_j >>
                               ELSE /\ IF Op(self).op = "Delete"
                                          THEN /\ /\ dk' = [dk EXCEPT ![self] = Op(self).k]
                                                  /\ stack' = [stack EXCEPT ![self] = << [ procedure |->  "getAndDelete",
                                                                                           pc        |->  "Fin",
                                                                                           d_it      |->  d_it[self],
                                                                                           d_cb      |->  d_cb[self],
                                                                                           dk        |->  dk[self],
                                                                                           wantResult |->  wantResult[self] ] >>
                                                                                       \o stack[self]]
                                                  /\ wantResult' = [wantResult EXCEPT ![self] = FALSE]
                                               /\ d_it' = [d_it EXCEPT ![self] = Absent]
                                               /\ d_cb' = [d_cb EXCEPT ![self] = ""]
                                               /\ pc' = [pc EXCEPT ![self] = "GD1"]
                                               /\ UNCHANGED << items, def, cb, 
                                                               res, e_cb, e_i, 
                                                               e_snap, e_out, 
                                                               e_j >>
                                          ELSE /\ IF Op(self).op = "DeleteExpired"
                                                     THEN /\ stack' = [stack EXCEPT ![self] = << [ procedure |->  "deleteExpired",
                                                                                                   pc        |->  "Fin",
                                                                                                   e_cb      |->  e_cb[self],
                                                                                                   e_i       |->  e_i[self],
                                                                                                   e_snap    |->  e_snap[self],
                                                                                                   e_out     |->  e_out[self],
                                                                                                   e_j       |->  e_j[self] ] >>
                                                                                               \o stack[self]]
                                                          /\ e_cb' = [e_cb EXCEPT ![self] = ""]
                                                          /\ e_i' = [e_i EXCEPT ![self] = 1]
                                                          /\ e_snap' = [e_snap EXCEPT ![self] = Absent]
                                                          /\ e_out' = [e_out EXCEPT ![self] = <<>>]
                                                          /\ e_j' = [e_j EXCEPT ![self] = 1]
                                                          /\ pc' = [pc EXCEPT ![self] = "DE1"]
                                                          /\ UNCHANGED << items, 
                                                                          def, 
                                                                          cb, 
                                                                          res >>
                                                     ELSE /\ IF Op(self).op \in {"Set", "SetDefault", "SetForever"}
                                                                THEN /\ items' = [items EXCEPT ![Op(self).k] = [v |-> Op(self).v, e |-> Exp(IF Op(self).op = "SetDefault" THEN DefExp ELSE IF Op(self).op = "SetForever" THEN NoExp ELSE Op(self).d, def)]]
                                                                     /\ res' = [res EXCEPT ![self] = NoRes]
                                                                     /\ UNCHANGED << def, 
                                                                                     cb >>
                                                                ELSE /\ IF Op(self).op = "Clear"
                                                                           THEN /\ items' = [k \in Keys |-> Absent]
                                                                                /\ res' = [res EXCEPT ![self] = NoRes]
                                                                                /\ UNCHANGED << def, 
                                                                                                cb >>
                                                                           ELSE /\ IF Op(self).op = "SetDefaultExpiration"
                                                                                      THEN /\ def' = Op(self).d
                                                                                           /\ res' = [res EXCEPT ![self] = NoRes]
                                                                                           /\ UNCHANGED << items, 
                                                                                                           cb >>
                                                                                      ELSE /\ IF Op(self).op = "SetEvictedCallback"
                                                                                                 THEN /\ cb' = (IF Op(self).fn = "nil" THEN "" ELSE Op(self).fn)
                                                                                                      /\ res' = [res EXCEPT ![self] = NoRes]
                                                                                                      /\ items' = items
                                                                                                 ELSE /\ LET it == items[Op(self).k] IN
                                                                                                           LET live == Has(it) /\ ~Expired(it) IN
                                                                                                             LET c == Op(self) IN
                                                                                                               IF c.op = "GetOrSet"
                                                                                                                  THEN /\ IF live
                                                                                                                             THEN /\ res' = [res EXCEPT ![self] = [NoRes EXCEPT !.rv = it.v, !.ok = TRUE]]
                                                                                                                                  /\ items' = items
                                                                                                                             ELSE /\ items' = [items EXCEPT ![c.k] = [v |-> c.v, e |-> Exp(c.d, def)]]
                                                                                                                                  /\ res' = [res EXCEPT ![self] = [NoRes EXCEPT !.rv = c.v]]
                                                                                                                  ELSE /\ IF c.op = "GetOrCompute"
                                                                                                                             THEN /\ IF live
                                                                                                                                        THEN /\ res' = [res EXCEPT ![self] = [NoRes EXCEPT !.rv = it.v, !.ok = TRUE]]
                                                                                                                                             /\ items' = items
                                                                                                                                        ELSE /\ items' = [items EXCEPT ![c.k] = [v |-> c.v, e |-> Exp(c.d, def)]]
                                                                                                                                             /\ res' = [res EXCEPT ![self] = [NoRes EXCEPT !.rv = c.v, !.n = 1]]
                                                                                                                             ELSE /\ IF c.op = "GetAndSet"
                                                                                                                                        THEN /\ items' = [items EXCEPT ![c.k] = [v |-> c.v, e |-> Exp(c.d, def)]]
                                                                                                                                             /\ res' = [res EXCEPT ![self] = IF live THEN [NoRes EXCEPT !.rv = it.v, !.ok = TRUE] ELSE [NoRes EXCEPT !.rv = c.v]]
                                                                                                                                        ELSE /\ IF c.op = "GetAndRefresh"
                                                                                                                                                   THEN /\ IF live
                                                                                                                                                              THEN /\ items' = [items EXCEPT ![c.k] = [v |-> it.v, e |-> Exp(c.d, def)]]
                                                                                                                                                                   /\ res' = [res EXCEPT ![self] = [NoRes EXCEPT !.rv = it.v, !.ok = TRUE]]
                                                                                                                                                              ELSE /\ items' = [items EXCEPT ![c.k] = Absent]
                                                                                                                                                                   /\ res' = [res EXCEPT ![self] = NoRes]
                                                                                                                                                   ELSE /\ IF c.op = "Compute"
                                                                                                                                                              THEN /\ LET old == IF live THEN it.v ELSE NilV IN
                                                                                                                                                                        LET r == FnResult(c.fn, c.v, old, live) IN
                                                                                                                                                                          IF r[2]
                                                                                                                                                                             THEN /\ items' = [items EXCEPT ![c.k] = Absent]
                                                                                                                                                                                  /\ res' = [res EXCEPT ![self] = [NoRes EXCEPT !.rv = old, !.n = 1, !.fo = old, !.fl = live]]
                                                                                                                                                                             ELSE /\ items' = [items EXCEPT ![c.k] = [v |-> r[1], e |-> Exp(c.d, def)]]
                                                                                                                                                                                  /\ res' = [res EXCEPT ![self] = [NoRes EXCEPT !.rv = r[1], !.ok = TRUE, !.n = 1, !.fo = old, !.fl = live]]
                                                                                                                                                              ELSE /\ res' = [res EXCEPT ![self] = NoRes]
                                                                                                                                                                   /\ items' = items
                                                                                                      /\ cb' = cb
                                                                                           /\ def' = def
                                                          /\ pc' = [pc EXCEPT ![self] = "Fin"]
                                                          /\ UNCHANGED << stack, 
                                                                          e_cb, 
                                                                          e_i, 
                                                                          e_snap, 
                                                                          e_out, 
                                                                          e_j >>
                                               /\ UNCHANGED << dk, wantResult, 
                                                               d_it, d_cb >>
                         /\ gk' = gk
              /\ UNCHANGED << hist, pcnt >>

Fin(self) == /\ pc[self] = "Fin"
             /\ hist' = Append(hist, RetEv(self, Op(self),
                          IF Op(self).op = "GetWithTTL" THEN [res[self] EXCEPT !.x = IF ~res[self].ok THEN 0 ELSE IF res[self].x > 0 THEN res[self].x - Now ELSE NoExp]
                          ELSE IF Op(self).op = "Get" THEN [res[self] EXCEPT !.x = 0] ELSE res[self]))
             /\ pc' = [pc EXCEPT ![self] = "Loop"]
             /\ UNCHANGED << items, def, cb, pcnt, res, stack, gk, dk, 
                             wantResult, d_it, d_cb, e_cb, e_i, e_snap, e_out, 
                             e_j >>

thr(self) == Loop(self) \/ Disp(self) \/ Fin(self)

(* Allow infinite stuttering to prevent deadlock on termination. *)
Terminating == /\ \A self \in ProcSet: pc[self] = "Done"
               /\ UNCHANGED vars

Next == (\E self \in ProcSet:  \/ get(self) \/ getAndDelete(self)
                               \/ deleteExpired(self))
           \/ (\E self \in Threads: thr(self))
           \/ Terminating

Spec == Init /\ [][Next]_vars

Termination == <>(\A self \in ProcSet: pc[self] = "Done")

\* END TRANSLATION

AllDone == \A t \in Threads : pc[t] = "Done"

\* every terminal history is printed once per terminal state; the driver de-duplicates and validates them with Trace_CacheLin
Emit == AllDone => PrintT(<<"HIST", ToJson([hist |-> hist, items |-> [k \in {x \in Keys : Has(items[x])} |-> items[k]]])>>)
=============================================================================

---------------------------- MODULE CacheImplSeq ----------------------------
(***************************************************************************)
(* Implementation-shaped SEQUENTIAL model of the cache layer               *)
(* (xsync_map.go / xsync_mapof.go): the physical content `items` (expired  *)
(* but uncleaned entries included), which call reaps what, which call      *)
(* fires the evicted callback, and what each call returns - one operator   *)
(* per method, written to follow the Go code line by line.                 *)
(*                                                                         *)
(* The underlying Map/MapOf is an ordinary function here (that it behaves  *)
(* like one is C03/C04/C11, decided by CLHT/MapLin/MapSeq).                *)
(*                                                                         *)
(* Design switches (CONSTANTS) name the deliberate or historical           *)
(* deviations of the code; with the defaults the model satisfies the       *)
(* property-level machine CacheSem, with the alternatives TLC produces     *)
(* shortest counterexample programs that are replayed on the real code.    *)
(***************************************************************************)
EXTENDS CacheSem

CONSTANTS
  GetAndDeleteChecksExpiry,  \* TRUE: an expired, uncleaned entry is reported absent (fixed D1)
  StrictExpiry,              \* TRUE: expired iff now > e ; FALSE: now >= e
  RefreshRearmsFromNow,      \* TRUE: GetAndRefresh re-arms from the time of the call
  DefaultResolvedAtCall,     \* TRUE: d = DefaultExpiration uses the default in force at the call
  ComputeSeesExpired,        \* FALSE: Compute hands (zero,false) to fn for an expired entry
  DeleteExpiredFiresAll,     \* TRUE: DeleteExpired fires the callback for every entry it removes
  GetOrSetRearmsOnHit        \* FALSE: a hit in GetOrSet/GetOrCompute leaves the expiry untouched

IExpired(it, now) == it.e > 0 /\ (IF StrictExpiry THEN now > it.e ELSE now >= it.e)

\* P = [items : partial function key -> [v, e], def, cb, noexp, defexp]
IPresent(P, k) == k \in DOMAIN P.items
IPut(P, k, v, e) == [P EXCEPT !.items = [x \in (DOMAIN P.items) \cup {k} |-> IF x = k THEN [v |-> v, e |-> e] ELSE P.items[x]]]
IDel(P, k) == [P EXCEPT !.items = [x \in (DOMAIN P.items) \ {k} |-> P.items[x]]]
ICount(P) == Cardinality(DOMAIN P.items)

\* xsync_map.go:78 expiration(d)
IExpiration(P, d, now) ==
  LET d1 == IF d = P.defexp THEN (IF DefaultResolvedAtCall THEN P.def ELSE P.def0) ELSE d
  IN IF d1 > 0 THEN now + d1 ELSE 0

\* config.go:48 configDefault + newXsyncMap
INew(hasdef, given, cb, noexp, defexp) ==
  LET nd == IF ~hasdef THEN noexp ELSE IF given < 1 THEN noexp ELSE given
  IN [items |-> <<>>, def |-> nd, def0 |-> nd, cb |-> cb, noexp |-> noexp, defexp |-> defexp]

BaseEv(c, now, P) ==
  [ev |-> "op", op |-> c.op, k |-> c.k, v |-> c.v, d |-> c.d, fn |-> c.fn, rv |-> NilV, ok |-> FALSE, x |-> 0, n |-> 0,
   fo |-> "", fl |-> FALSE, c0 |-> ICount(P), c1 |-> ICount(P), now |-> now, evs |-> <<>>, vis |-> <<>>]

Out(P2, e) == [P |-> P2, ev |-> [e EXCEPT !.c1 = ICount(P2)]]

\* xsync_map.go:109 get(): Load; if expired, Compute(double check or delete)
IGet(P, k, now) ==
  IF ~IPresent(P, k) THEN [P |-> P, hit |-> FALSE, it |-> [v |-> NilV, e |-> 0]]
  ELSE IF ~IExpired(P.items[k], now) THEN [P |-> P, hit |-> TRUE, it |-> P.items[k]]
  ELSE [P |-> IDel(P, k), hit |-> FALSE, it |-> [v |-> NilV, e |-> 0]]

LiveItem(P, k, now) == IPresent(P, k) /\ ~IExpired(P.items[k], now)

SetOfSeq(s) == {s[i] : i \in DOMAIN s}

\* keys are "k1".."k9": order by position in KeyOrder
KeyOrder == <<"k1", "k2", "k3", "k4", "k5", "k6", "k7", "k8", "k9">>
KeyLess(a, b) == \E i, j \in 1..Len(KeyOrder) : KeyOrder[i] = a /\ KeyOrder[j] = b /\ i < j

\* Range order is layout dependent, so the model only fixes WHICH pairs are visited;
\* traces carry them sorted by key
RECURSIVE SortedSeq(_)
SortedSeq(ps) ==
  IF ps = {} THEN <<>>
  ELSE LET m == CHOOSE p \in ps : \A q \in ps : q = p \/ KeyLess(p.k, q.k)
       IN <<m>> \o SortedSeq(ps \ {m})

LivePairs(P, now) == {[cb |-> "", k |-> k, v |-> P.items[k].v] : k \in {x \in DOMAIN P.items : ~IExpired(P.items[x], now)}}

(***************************************************************************)
(* ISteps(P, c, now): the set of possible outcomes [P, ev] of call c.      *)
(* Only Range with an early-stopping visitor has more than one.            *)
(***************************************************************************)
ISteps(P, c, now) ==
  LET e0 == BaseEv(c, now, P)
      k == c.k
      live == LiveItem(P, k, now)
      d == CASE c.op = "SetDefault" -> P.defexp [] c.op = "SetForever" -> P.noexp [] OTHER -> c.d
  IN
  CASE c.op \in {"Set", "SetDefault", "SetForever"} ->
         {Out(IPut(P, k, c.v, IExpiration(P, d, now)), e0)}
    [] c.op = "Get" ->
         LET g == IGet(P, k, now) IN {Out(g.P, [e0 EXCEPT !.rv = g.it.v, !.ok = g.hit])}
    [] c.op = "GetWithExpiration" ->
         LET g == IGet(P, k, now) IN {Out(g.P, [e0 EXCEPT !.rv = g.it.v, !.ok = g.hit, !.x = IF g.hit THEN g.it.e ELSE 0])}
    [] c.op = "GetWithTTL" ->
         LET g == IGet(P, k, now)
         IN {Out(g.P, [e0 EXCEPT !.rv = g.it.v, !.ok = g.hit,
                                 !.x = IF ~g.hit THEN 0 ELSE IF g.it.e > 0 THEN g.it.e - now ELSE P.noexp])}
    [] c.op = "GetOrSet" ->
         IF live THEN {Out(IF GetOrSetRearmsOnHit THEN IPut(P, k, P.items[k].v, IExpiration(P, d, now)) ELSE P,
                           [e0 EXCEPT !.rv = P.items[k].v, !.ok = TRUE])}
         ELSE {Out(IPut(P, k, c.v, IExpiration(P, d, now)), [e0 EXCEPT !.rv = c.v])}
    [] c.op = "GetAndSet" ->
         {Out(IPut(P, k, c.v, IExpiration(P, d, now)),
              IF live THEN [e0 EXCEPT !.rv = P.items[k].v, !.ok = TRUE] ELSE [e0 EXCEPT !.rv = c.v])}
    [] c.op = "GetAndRefresh" ->
         IF live THEN {Out(IPut(P, k, P.items[k].v, IF RefreshRearmsFromNow THEN IExpiration(P, d, now)
                                                      ELSE IF IExpiration(P, d, now) = 0 THEN 0 ELSE P.items[k].e + (IExpiration(P, d, now) - now)),
                           [e0 EXCEPT !.rv = P.items[k].v, !.ok = TRUE])}
         ELSE {Out(IDel(P, k), e0)}
    [] c.op = "GetOrCompute" ->
         IF live THEN {Out(IF GetOrSetRearmsOnHit THEN IPut(P, k, P.items[k].v, IExpiration(P, d, now)) ELSE P,
                           [e0 EXCEPT !.rv = P.items[k].v, !.ok = TRUE])}
         ELSE {Out(IPut(P, k, c.v, IExpiration(P, d, now)), [e0 EXCEPT !.rv = c.v, !.n = 1])}
    [] c.op = "Compute" ->
         LET lok == IF ComputeSeesExpired THEN IPresent(P, k) ELSE live
             old == IF lok THEN P.items[k].v ELSE NilV
             r == FnResult(c.fn, c.v, old, lok)
             e1 == [e0 EXCEPT !.n = 1, !.fo = old, !.fl = lok]
         IN IF r[2] THEN {Out(IDel(P, k), [e1 EXCEPT !.rv = old])}
            ELSE {Out(IPut(P, k, r[1], IExpiration(P, d, now)), [e1 EXCEPT !.rv = r[1], !.ok = TRUE])}
    [] c.op \in {"GetAndDelete", "Delete"} ->
         IF ~IPresent(P, k) THEN {Out(P, e0)}
         ELSE LET it == P.items[k]
                  fired == IF P.cb = NoCb THEN <<>> ELSE <<[cb |-> P.cb, k |-> k, v |-> it.v]>>
                  hit == IF GetAndDeleteChecksExpiry THEN ~IExpired(it, now) ELSE TRUE
              IN {Out(IDel(P, k), IF c.op = "Delete" THEN [e0 EXCEPT !.evs = fired]
                                  ELSE [e0 EXCEPT !.evs = fired, !.rv = IF hit THEN it.v ELSE NilV, !.ok = hit])}
    [] c.op = "DeleteExpired" ->
         LET dead == {x \in DOMAIN P.items : IExpired(P.items[x], now)}
             P2 == [P EXCEPT !.items = [x \in (DOMAIN P.items) \ dead |-> P.items[x]]]
             fired == IF P.cb = NoCb \/ ~DeleteExpiredFiresAll THEN {} ELSE {[cb |-> P.cb, k |-> x, v |-> P.items[x].v] : x \in dead}
         IN {Out(P2, [e0 EXCEPT !.evs = SortedSeq(fired)])}
    [] c.op = "Range" ->
         LET lp == LivePairs(P, now)
             n == StopCount(c.fn)
         IN IF n = 0 \/ Cardinality(lp) <= n THEN {Out(P, [e0 EXCEPT !.vis = SortedSeq(lp)])}
            ELSE {Out(P, [e0 EXCEPT !.vis = SortedSeq(sub)]) : sub \in {s \in SUBSET lp : Cardinality(s) = n}}
    [] c.op = "Items" -> {Out(P, [e0 EXCEPT !.vis = SortedSeq(LivePairs(P, now))])}
    [] c.op = "RangeNil" -> {Out(P, e0)}
    [] c.op = "Clear" -> {Out([P EXCEPT !.items = <<>>], e0)}
    [] c.op = "Count" -> {Out(P, [e0 EXCEPT !.x = ICount(P)])}
    [] c.op = "DefaultExpiration" -> {Out(P, [e0 EXCEPT !.x = P.def])}
    [] c.op = "SetDefaultExpiration" -> {Out([P EXCEPT !.def = c.d], e0)}
    [] c.op = "SetEvictedCallback" -> {Out([P EXCEPT !.cb = IF c.fn = "nil" THEN NoCb ELSE c.fn], e0)}

=============================================================================

------------------------------ MODULE CacheLife ------------------------------
(***************************************************************************)
(* Janitor and lifecycle machine (C15).                                    *)
(*                                                                         *)
(*  New(cfg)      a janitor exists iff the normalised cleanup interval is  *)
(*                positive (negative -> 0, option absent -> the default);  *)
(*                its ticker period is that interval                       *)
(*  Set(k, d)     physical entry with expiry now + d (d > 0) or never      *)
(*  Advance(dt)   virtual time passes; when the ticker's next instant is   *)
(*                reached the janitor runs one pass: every expired entry   *)
(*                is removed and reported to the callback exactly once     *)
(*  Get(k)        an access reaps the entry it touches if expired          *)
(*  DeleteExpired manual pass                                              *)
(*  Observe       Count and the callback ledger since the last observation *)
(*                                                                         *)
(* Safety: with interval <= 0 nothing is removed except by Get /           *)
(* DeleteExpired; with interval > 0 nothing is removed before the first    *)
(* tick; after a tick no expired entry remains and each removed entry was  *)
(* reported once. Lifecycle: after Drop + GC the janitor is gone, its      *)
(* ticker stopped and the contents collectable.                            *)
(***************************************************************************)
EXTENDS Integers, Sequences, FiniteSets, TLC

NormInterval(hasintv, given, dflt) == IF ~hasintv THEN dflt ELSE IF given < 0 THEN 0 ELSE given

\* L = [intv, next, now, phys : key -> e, cb, pend : set of keys whose eviction has not been observed yet]
LInit(hasintv, given, dflt, cb, now) ==
  LET iv == NormInterval(hasintv, given, dflt)
  IN [intv |-> iv, next |-> now + iv, now |-> now, phys |-> <<>>, cb |-> cb, pend |-> {}]

Dead(L, t) == {k \in DOMAIN L.phys : L.phys[k] > 0 /\ t > L.phys[k]}

\* cb is the id of the evicted callback in force ("" = none); a pass reports to the callback in force when the pass runs
Reap(L, ks) == [L EXCEPT !.phys = [k \in (DOMAIN L.phys) \ ks |-> L.phys[k]],
                         !.pend = IF L.cb # "" THEN @ \cup {[k |-> k, cb |-> L.cb] : k \in ks} ELSE @]
LSetCb(L, id) == [L EXCEPT !.cb = id]

LSet(L, k, d) == [L EXCEPT !.phys = [x \in (DOMAIN L.phys) \cup {k} |-> IF x = k THEN (IF d > 0 THEN L.now + d ELSE 0) ELSE L.phys[x]]]

\* time passes; the ticker fires at most once per advance (a slow receiver drops ticks), then re-arms past now
LAdvance(L, dt) ==
  LET t == L.now + dt IN
  IF L.intv > 0 /\ t >= L.next
  THEN LET L1 == Reap([L EXCEPT !.now = t], Dead(L, t))
           skip == ((t - L.next) \div L.intv) + 1
       IN [L1 EXCEPT !.next = L.next + skip * L.intv]
  ELSE [L EXCEPT !.now = t]

LGet(L, k) == IF k \in Dead(L, L.now) THEN [L EXCEPT !.phys = [x \in (DOMAIN L.phys) \ {k} |-> L.phys[x]]] ELSE L
LDeleteExpired(L) == Reap(L, Dead(L, L.now))

\* an observation: Count and the keys reported to the callback since the last one
ObserveOK(L, count, evs) ==
  /\ count = Cardinality(DOMAIN L.phys)
  /\ {[k |-> evs[i].k, cb |-> evs[i].cb] : i \in DOMAIN evs} = L.pend
  /\ Len(evs) = Cardinality(L.pend)
LObserved(L) == [L EXCEPT !.pend = {}]
=============================================================================

SPECIFICATION Spec
CONSTANTS
 Keys = {"k1", "k2"}
 Intervals <- IntervalsDef
 TTLs = {0, 1, 2, 5}
 Steps = {1, 2, 3}
 MaxNow = 9
 Default = 4
INVARIANT OnlyWhenConfigured
INVARIANT BoundedStaleness
INVARIANT TickAhead
INVARIANT PendingOnlyWithCallback
PROPERTY NoLiveRemoved
PROPERTY PassIsComplete
PROPERTY TickerForward
CHECK_DEADLOCK FALSE

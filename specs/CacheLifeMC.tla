---------------------------- MODULE CacheLifeMC ----------------------------
(***************************************************************************)
(* Exhaustive model of the janitor machine CacheLife (C15): every sequence *)
(* of stores, clock advances, accesses and manual passes for every         *)
(* interval configuration, within small bounds.                            *)
(*                                                                         *)
(*  Safety   OnlyWhenConfigured  with a normalised interval <= 0 nothing   *)
(*                               is ever removed by the passage of time    *)
(*           BoundedStaleness    with an interval > 0 an expired entry     *)
(*                               that is still physically present expired  *)
(*                               after the last tick, i.e. it is at most   *)
(*                               one interval overdue                      *)
(*           ReportedOnce        a key is pending for the callback only if *)
(*                               it was removed and not yet observed       *)
(***************************************************************************)
EXTENDS CacheLife

CONSTANTS Keys, Intervals, TTLs, Steps, MaxNow, Default

VARIABLES L, removedByTime

vars == <<L, removedByTime>>

Init == \E hasintv \in BOOLEAN, given \in Intervals, cb \in {"", "cb1"} :
          /\ L = LInit(hasintv, given, Default, cb, 0)
          /\ removedByTime = {}

Set(k, d) == L' = LSet(L, k, d) /\ UNCHANGED removedByTime
Advance(dt) ==
  /\ L.now + dt <= MaxNow
  /\ L' = LAdvance(L, dt)
  /\ removedByTime' = removedByTime \cup ((DOMAIN L.phys) \ (DOMAIN LAdvance(L, dt).phys))
Get(k) == L' = LGet(L, k) /\ UNCHANGED removedByTime
Manual == L' = LDeleteExpired(L) /\ UNCHANGED removedByTime
Observe == L' = LObserved(L) /\ UNCHANGED removedByTime
SetCb == \E id \in {"", "cb1", "cb2"} : L' = LSetCb(L, id) /\ UNCHANGED removedByTime

Next == \/ \E k \in Keys, d \in TTLs : Set(k, d)
        \/ \E dt \in Steps : Advance(dt)
        \/ \E k \in Keys : Get(k)
        \/ Manual
        \/ Observe
        \/ SetCb

Spec == Init /\ [][Next]_vars

OnlyWhenConfigured == L.intv <= 0 => removedByTime = {}
BoundedStaleness == L.intv > 0 => \A k \in Dead(L, L.now) : L.phys[k] >= L.next - L.intv
TickAhead == L.intv > 0 => L.now < L.next
PendingOnlyWithCallback == \A p \in L.pend : p.cb # ""

\* action properties: whatever removes an entry (tick, access, manual pass), the entry was expired at the
\* instant of the step - an unexpired entry is never dropped (C15 with C01's last clause); a pass leaves no
\* expired entry behind; the ticker's next instant only moves forward, by whole intervals
NoLiveRemoved == [][((DOMAIN L.phys) \ (DOMAIN L'.phys)) \subseteq Dead(L, L'.now)]_vars
PassIsComplete == [][(removedByTime' # removedByTime \/ (L'.now = L.now /\ L'.pend # L.pend /\ L'.pend # {})) => Dead(L', L'.now) = {}]_vars
TickerForward == [][L.intv > 0 => /\ L'.next >= L.next
                                   /\ (L'.next - L.next) % L.intv = 0
                                   /\ L'.intv = L.intv]_vars

IntervalsDef == {0 - 3, 0, 2, 3}
=============================================================================

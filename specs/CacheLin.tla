------------------------------ MODULE CacheLin ------------------------------
(***************************************************************************)
(* Property-level CONCURRENT machine for Cache / CacheOf (C02, C05, C06,   *)
(* C07, C08, C16): linearizability with respect to the logical TTL         *)
(* semantics of CacheSem.  The virtual clock is frozen while threads run   *)
(* (it is advanced only by logged Tick calls of the preload), so expiry is *)
(* a function of the phase.                                                *)
(*                                                                         *)
(*   idle --Call--> called --Lin--> lin --Ret--> idle                      *)
(*                                                                         *)
(* Which call physically reaps an expired entry is NOT prescribed: an      *)
(* expired entry is invisible whether or not it still occupies a slot.     *)
(* What is prescribed:                                                     *)
(*  - results follow the visibility view at the linearization point        *)
(*  - a remover (Delete / GetAndDelete) of a visible entry queues exactly  *)
(*    one eviction of that very instance; of an invisible key it may       *)
(*    remove an expired leftover (one eviction) or nothing                 *)
(*  - DeleteExpired / a janitor pass is a sequence of internal             *)
(*    DERemove(t, k) steps, each atomically removing k iff it is stored    *)
(*    and expired at that moment and queuing the eviction of exactly that  *)
(*    instance; it can never remove a live entry                           *)
(*  - every logged Evict must match a queued eviction of the same thread,  *)
(*    carry a callback that was in force during the call, and an instance  *)
(*    is reported at most once; a call returns only when its queue is      *)
(*    empty (or no callback was in force)                                  *)
(*  - Range / Items: as in MapLin, over the visible mapping                *)
(*  - Count is constrained at the logged Quiesce event only                *)
(***************************************************************************)
EXTENDS CacheSem

CONSTANT Threads

VARIABLES S, th, now, bal

AbsentMark == "<absent>"
NoCallRec == [op |-> "", k |-> "", v |-> "", d |-> 0, fn |-> "", lo |-> 0, hi |-> 0]
NoRes == [rv |-> NilV, ok |-> FALSE, x |-> 0, n |-> 0, fo |-> NilV, fl |-> FALSE]
IdleNest == [st |-> "idle", call |-> NoCallRec, res |-> NoRes]
IdleThread == [st |-> "idle", call |-> NoCallRec, res |-> NoRes, cand |-> <<>>, visited |-> {}, evq |-> {}, cbseen |-> {}, bal0 |-> {}, nest |-> IdleNest]

LinInit == S = InitState(0, NoCb, 0, 0) /\ th = [t \in Threads |-> IdleThread] /\ now = 0 /\ bal = {}

CallOf(ev) == [op |-> ev.op, k |-> ev.k, v |-> ev.v, d |-> ev.d, fn |-> ev.fn, lo |-> ev.lo, hi |-> ev.hi]

Mapping(Sx, k, nw) == IF Visible(Sx, k, nw) THEN Sx.last[k].v ELSE AbsentMark
CandOf(cand, k) == IF k \in DOMAIN cand THEN cand[k] ELSE {AbsentMark}
CandPut(cand, k, x) == [y \in (DOMAIN cand) \cup {k} |-> IF y = k THEN CandOf(cand, k) \cup {x} ELSE cand[y]]
Snapshot(Sx, nw) == [k \in VisibleKeys(Sx, nw) |-> {Sx.last[k].v}]

RECURSIVE CandPutAll(_, _, _, _)
CandPutAll(cand, ks, Sn, nw) ==
  IF ks = {} THEN cand
  ELSE LET k == CHOOSE x \in ks : TRUE IN CandPutAll(CandPut(cand, k, Mapping(Sn, k, nw)), ks \ {k}, Sn, nw)

Traversing(r) == r.st = "range"

\* every traversal in flight learns the new mapping of the touched keys
Inform(thx, ks, Sn, nw) ==
  [t \in Threads |-> IF Traversing(thx[t]) THEN [thx[t] EXCEPT !.cand = CandPutAll(@, ks, Sn, nw)] ELSE thx[t]]

\* a callback change is seen by every call in flight
InformCb(thx, cb) == [t \in Threads |-> IF thx[t].st # "idle" THEN [thx[t] EXCEPT !.cbseen = @ \cup {cb}] ELSE thx[t]]

(* expected result of a value-returning call at its linearization point *)
CResult(Sx, c, nw) ==
  LET vw == View(Sx, c.k, nw) IN
  CASE c.op = "Get" -> [NoRes EXCEPT !.rv = vw.v, !.ok = vw.ok]
    [] c.op = "GetWithExpiration" -> [NoRes EXCEPT !.rv = vw.v, !.ok = vw.ok, !.x = vw.e]
    [] c.op = "GetWithTTL" -> [NoRes EXCEPT !.rv = vw.v, !.ok = vw.ok, !.x = IF ~vw.ok THEN 0 ELSE IF vw.e > 0 THEN vw.e - nw ELSE Sx.noexp]
    [] c.op \in {"GetOrSet", "GetAndSet"} -> IF vw.ok THEN [NoRes EXCEPT !.rv = vw.v, !.ok = TRUE] ELSE [NoRes EXCEPT !.rv = c.v]
    [] c.op = "GetAndRefresh" -> [NoRes EXCEPT !.rv = vw.v, !.ok = vw.ok]
    [] c.op = "GetOrCompute" -> IF vw.ok THEN [NoRes EXCEPT !.rv = vw.v, !.ok = TRUE] ELSE [NoRes EXCEPT !.rv = c.v, !.n = 1]
    [] c.op = "Compute" ->
         LET r == FnResult(c.fn, c.v, vw.v, vw.ok)
         IN IF r[2] THEN [NoRes EXCEPT !.rv = vw.v, !.n = 1, !.fo = vw.v, !.fl = vw.ok]
            ELSE [NoRes EXCEPT !.rv = r[1], !.ok = TRUE, !.n = 1, !.fo = vw.v, !.fl = vw.ok]
    [] c.op = "GetAndDelete" -> [NoRes EXCEPT !.rv = vw.v, !.ok = vw.ok]
    [] c.op = "DefaultExpiration" -> [NoRes EXCEPT !.x = Sx.def]
    [] OTHER -> NoRes

\* state change of a non-remover call (reuses the sequential successor function)
CNext(Sx, c, nw) ==
  NextCall(Sx, [op |-> c.op, k |-> c.k, v |-> c.v, d |-> c.d, fn |-> c.fn, now |-> nw, c0 |-> 0, c1 |-> 0, evs |-> <<>>])

TouchedBy(c, Sx) == IF c.op = "Clear" THEN DOMAIN Sx.last ELSE IF c.k = "" THEN {} ELSE {c.k}

Removers == {"GetAndDelete", "Delete"}
Atomic(c) == c.op \notin {"Range", "Items", "DeleteExpired"}

(* ---- actions ---- *)

Call(t, ev) ==
  LET c == CallOf(ev) IN
  \/ /\ th[t].st = "idle"
     /\ th' = [th EXCEPT ![t] = [IdleThread EXCEPT
                 !.st = IF c.op \in {"Range", "Items"} THEN "range" ELSE IF c.op = "DeleteExpired" THEN "de" ELSE "called",
                 !.call = c, !.cbseen = {S.cb}, !.bal0 = bal,
                 !.cand = IF c.op \in {"Range", "Items"} THEN Snapshot(S, now) ELSE <<>>]]
     /\ UNCHANGED <<S, now, bal>>
  \/ /\ th[t].st \in {"range", "de", "lin"} /\ th[t].nest.st = "idle" /\ Atomic(c)
     /\ th' = [th EXCEPT ![t].nest = [st |-> "called", call |-> c, res |-> NoRes]]
     /\ UNCHANGED <<S, now, bal>>

\* the atomic effect of call c by thread t; returns via primed variables; `slot` says where the result goes
LinEffect(t, c, nested) ==
  LET setres(r, thx) == IF nested THEN [thx EXCEPT ![t].nest.st = "lin", ![t].nest.res = r]
                                 ELSE [thx EXCEPT ![t].st = "lin", ![t].res = r]
  IN
  CASE c.op = "Tick" ->
         /\ now' = now + c.d /\ th' = setres(NoRes, th) /\ UNCHANGED <<S, bal>>
    [] c.op = "BulkStore" ->
         /\ bal' = bal \cup (c.lo .. c.hi) /\ th' = setres(NoRes, th) /\ UNCHANGED <<S, now>>
    [] c.op = "BulkDelete" ->
         /\ bal' = bal \ (c.lo .. c.hi) /\ th' = setres(NoRes, th) /\ UNCHANGED <<S, now>>
    [] c.op = "SetEvictedCallback" ->
         LET Sn == CNext(S, c, now)
         IN /\ S' = Sn /\ th' = InformCb(setres(NoRes, th), Sn.cb) /\ UNCHANGED <<now, bal>>
    [] c.op \in Removers ->
         LET vw == View(S, c.k, now) IN
         IF vw.ok
         THEN LET Sn == [Remove(S, c.k) EXCEPT !.evicted = @ \cup {vw.v}]
              IN /\ S' = Sn
                 /\ th' = Inform([setres(CResult(S, c, now), th) EXCEPT ![t].evq = @ \cup {[k |-> c.k, v |-> vw.v]}], {c.k}, Sn, now)
                 /\ UNCHANGED <<now, bal>>
         ELSE \/ /\ th' = setres(CResult(S, c, now), th) /\ UNCHANGED <<S, now, bal>>
              \/ \* an expired leftover is removed (and reported, if a callback is installed)
                 /\ ExpiredStored(S, c.k, now)
                 /\ (S.last[c.k].v = NilV \/ S.last[c.k].v \notin S.evicted)
                 /\ S' = [Remove(S, c.k) EXCEPT !.evicted = @ \cup {S.last[c.k].v}]
                 /\ th' = [setres(CResult(S, c, now), th) EXCEPT ![t].evq = @ \cup {[k |-> c.k, v |-> S.last[c.k].v]}]
                 /\ UNCHANGED <<now, bal>>
    [] OTHER ->
         LET Sn == CNext(S, c, now)
         IN /\ S' = Sn
            /\ th' = Inform(setres(CResult(S, c, now), th), TouchedBy(c, S), Sn, now)
            /\ bal' = (IF c.op = "Clear" THEN {} ELSE bal)
            /\ UNCHANGED now

Lin(t) ==
  \/ th[t].st = "called" /\ LinEffect(t, th[t].call, FALSE)
  \/ th[t].st \in {"range", "de", "lin"} /\ th[t].nest.st = "called" /\ LinEffect(t, th[t].nest.call, TRUE)

\* one removal step of a DeleteExpired pass in flight
DERemove(t, k) ==
  /\ th[t].st = "de" /\ th[t].nest.st = "idle"
  /\ th[t].cbseen # {NoCb}
  /\ ExpiredStored(S, k, now)
  /\ (S.last[k].v = NilV \/ S.last[k].v \notin S.evicted)
  /\ S' = [Remove(S, k) EXCEPT !.evicted = @ \cup {S.last[k].v}]
  /\ th' = [th EXCEPT ![t].evq = @ \cup {[k |-> k, v |-> S.last[k].v]}]
  /\ UNCHANGED <<now, bal>>

ResultOK(A, c, res, ev) ==
  CASE c.op \in {"Get", "GetOrSet", "GetAndSet", "GetAndRefresh", "GetAndDelete"} -> On(A, "view", ev.rv = res.rv /\ ev.ok = res.ok)
    [] c.op \in {"GetWithExpiration", "GetWithTTL"} -> On(A, "view", ev.rv = res.rv /\ ev.ok = res.ok) /\ On(A, "instant", ev.x = res.x)
    [] c.op = "GetOrCompute" -> On(A, "view", ev.rv = res.rv /\ ev.ok = res.ok) /\ On(A, "fn", ev.n = res.n)
    [] c.op = "Compute" -> On(A, "view", ev.rv = res.rv /\ ev.ok = res.ok /\ ev.fo = res.fo /\ ev.fl = res.fl) /\ On(A, "fn", ev.n = 1)
    [] c.op = "DefaultExpiration" -> On(A, "instant", ev.x = res.x)
    [] c.op \in {"BulkLoad", "BulkDelete"} -> On(A, "view", ev.n = ev.x)
    [] OTHER -> TRUE

\* a call may return only when every eviction it queued has fired (unless no callback was in force at some point)
QueueDone(A, r) == On(A, "evict", r.evq = {} \/ NoCb \in r.cbseen)

Ret(A, t, ev) ==
  \/ /\ th[t].st = "lin" /\ th[t].nest.st = "idle" /\ ev.op = th[t].call.op
     /\ ResultOK(A, th[t].call, th[t].res, ev)
     /\ QueueDone(A, th[t])
     /\ th' = [th EXCEPT ![t] = IdleThread]
     /\ UNCHANGED <<S, now, bal>>
  \/ /\ th[t].st \in {"range", "de", "lin"} /\ th[t].nest.st = "lin" /\ ev.op = th[t].nest.call.op
     /\ ResultOK(A, th[t].nest.call, th[t].nest.res, ev)
     /\ (th[t].st = "range" => QueueDone(A, th[t]))
     /\ th' = [th EXCEPT ![t].nest = IdleNest]
     /\ UNCHANGED <<S, now, bal>>
  \/ /\ th[t].st = "de" /\ th[t].nest.st = "idle" /\ ev.op = "DeleteExpired"
     /\ QueueDone(A, th[t])
     /\ th' = [th EXCEPT ![t] = IdleThread]
     /\ UNCHANGED <<S, now, bal>>
  \/ /\ th[t].st = "range" /\ th[t].nest.st = "idle" /\ ev.op = "Range" /\ th[t].call.op = "Range"
     /\ LET n == StopCount(th[t].call.fn)
            stopped == n > 0 /\ ev.x >= n
        IN On(A, "vis",
              /\ (n > 0 => ev.x <= n)
              /\ ev.n <= Cardinality(th[t].bal0)
              /\ (~stopped => /\ \A k \in DOMAIN th[t].cand : AbsentMark \notin th[t].cand[k] => k \in th[t].visited
                              /\ (bal = th[t].bal0 => ev.n = Cardinality(bal))))
     /\ th' = [th EXCEPT ![t] = IdleThread]
     /\ UNCHANGED <<S, now, bal>>
  \/ /\ th[t].st = "range" /\ th[t].nest.st = "idle" /\ ev.op = "Items" /\ th[t].call.op = "Items"
     /\ On(A, "vis",
           LET scen == {i \in DOMAIN ev.vis : ev.vis[i].k \notin {"b" \o ToString(j) : j \in bal}}
           IN /\ \A i \in scen : ev.vis[i].v \in (CandOf(th[t].cand, ev.vis[i].k) \ {AbsentMark})
              /\ \A k \in DOMAIN th[t].cand : AbsentMark \notin th[t].cand[k] => \E i \in scen : ev.vis[i].k = k
              /\ Cardinality({ev.vis[i].k : i \in DOMAIN ev.vis}) = Len(ev.vis))
     /\ th' = [th EXCEPT ![t] = IdleThread]
     /\ UNCHANGED <<S, now, bal>>

Visit(A, t, ev) ==
  /\ th[t].st = "range" /\ th[t].nest.st = "idle"
  /\ On(A, "vis", /\ ev.k \notin th[t].visited
                  /\ ev.v \in (CandOf(th[t].cand, ev.k) \ {AbsentMark}))
  /\ th' = [th EXCEPT ![t].visited = @ \cup {ev.k}]
  /\ UNCHANGED <<S, now, bal>>

Evict(A, t, ev) ==
  /\ th[t].st \in {"lin", "de", "range"}
  /\ On(A, "evict", /\ [k |-> ev.k, v |-> ev.v] \in th[t].evq
                    /\ ev.cb \in (th[t].cbseen \ {NoCb}))
  /\ th' = [th EXCEPT ![t].evq = @ \ {[k |-> ev.k, v |-> ev.v]}]
  /\ UNCHANGED <<S, now, bal>>

\* quiescent observations: Count equals the physical number of entries (read through the access file),
\* every visible entry is physically present with its exact instant, nothing removed is still there
Quiesce(A, ev) ==
  /\ \A t \in Threads : th[t].st = "idle"
  /\ On(A, "count", /\ ev.x >= Cardinality(VisibleKeys(S, now)) + Cardinality(bal)
                    /\ (ev.hasphys => ev.x = ev.c1 /\ ev.n = Cardinality(bal)))
  /\ On(A, "view", ev.hasphys =>
        /\ \A k \in VisibleKeys(S, now) : \E i \in DOMAIN ev.phys : ev.phys[i].k = k /\ ev.phys[i].v = S.last[k].v /\ ev.phys[i].e = S.last[k].e
        /\ \A i \in DOMAIN ev.phys : LET p == ev.phys[i] IN Lookup(S.last, p.k).st = "stored" /\ S.last[p.k].v = p.v /\ S.last[p.k].e = p.e)
  /\ UNCHANGED <<S, th, now, bal>>
=============================================================================

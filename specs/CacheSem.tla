------------------------------ MODULE CacheSem ------------------------------
(***************************************************************************)
(* Property-level sequential semantics of Cache / CacheOf (C01, C06, C07,  *)
(* C08, C09): what a user may rely on, stated over the LOGICAL content     *)
(* only.  The state knows nothing about lazy deletion, cleanup or table    *)
(* layout:                                                                 *)
(*                                                                         *)
(*   last[k]   = [v, e, st]   the most recently stored value of k, its     *)
(*                            expiration instant (0 = never) and whether   *)
(*                            it is still "stored" (not deleted/cleared)   *)
(*   pm        = keys that MAY still be physically present (stored and     *)
(*               not known to be removed) - only bounds Count from above   *)
(*   def, cb   = default TTL and evicted-callback id in force              *)
(*   evicted   = value instances already reported to a callback            *)
(*                                                                         *)
(* An observation is a record ev (one API call with its arguments, the     *)
(* virtual instant of the call, its results, the callbacks fired during    *)
(* it and Count before/after).  Accept(S, ev) says whether the observation *)
(* is one the property allows in state S; Next(S, ev) is the successor.    *)
(* The same two operators are used by the exhaustive model (TTLCache),     *)
(* by sequential trace validation (Trace_CacheSeq) and, call by call, by   *)
(* the linearizability machine (CacheLin).                                 *)
(***************************************************************************)
EXTENDS Integers, Sequences, FiniteSets, TLC

NilV == "nil"      \* the zero value / "absent" in results
NoCb == ""         \* no callback installed

AbsentEntry == [v |-> NilV, e |-> 0, st |-> "absent"]

Lookup(last, k) == IF k \in DOMAIN last THEN last[k] ELSE AbsentEntry
Put(last, k, ent) == [x \in (DOMAIN last) \cup {k} |-> IF x = k THEN ent ELSE last[x]]

Expired(ent, now) == ent.e > 0 /\ now > ent.e

Visible(S, k, now) ==
  LET ent == Lookup(S.last, k) IN ent.st = "stored" /\ ~Expired(ent, now)

VisibleKeys(S, now) == {k \in DOMAIN S.last : Visible(S, k, now)}

\* stored, expired, and possibly still occupying a slot
ExpiredStored(S, k, now) ==
  LET ent == Lookup(S.last, k) IN ent.st = "stored" /\ Expired(ent, now)

(* C09: the expiration instant a storing call must produce *)
Expiration(S, d, now) ==
  LET d1 == IF d = S.defexp THEN S.def ELSE d
  IN IF d1 > 0 THEN now + d1 ELSE 0

(* C09: constructor normalisation of the default TTL *)
NormDefault(hasdef, given, noexp) ==
  IF ~hasdef THEN noexp ELSE IF given < 1 THEN noexp ELSE given

InitState(def, cb, noexp, defexp) ==
  [last |-> <<>>, pm |-> {}, def |-> def, cb |-> cb, evicted |-> {},
   noexp |-> noexp, defexp |-> defexp]

\* what a lookup of k must report
View(S, k, now) ==
  IF Visible(S, k, now)
  THEN [v |-> S.last[k].v, ok |-> TRUE, e |-> S.last[k].e]
  ELSE [v |-> NilV, ok |-> FALSE, e |-> 0]

Store(S, k, v, e) ==
  [S EXCEPT !.last = Put(S.last, k, [v |-> v, e |-> e, st |-> "stored"]),
            !.pm = @ \cup {k}]

Remove(S, k) ==
  IF k \in DOMAIN S.last
  THEN [S EXCEPT !.last = Put(S.last, k, [S.last[k] EXCEPT !.st = "absent"]), !.pm = @ \ {k}]
  ELSE S

(* user-function catalogue for Compute: result <<newValue, delete>> *)
FnResult(fn, v, old, loaded) ==
  CASE fn = "set"         -> <<v, FALSE>>
    [] fn = "del"         -> <<NilV, TRUE>>
    [] fn = "delret"      -> <<v, TRUE>>
    [] fn = "keep"        -> <<old, FALSE>>
    [] fn = "toggle"      -> IF loaded THEN <<NilV, TRUE>> ELSE <<v, FALSE>>
    [] fn = "setifabsent" -> IF loaded THEN <<old, FALSE>> ELSE <<v, FALSE>>

DurationOf(S, ev) ==
  CASE ev.op = "SetDefault" -> S.defexp
    [] ev.op = "SetForever" -> S.noexp
    [] OTHER -> ev.d

SeqToSet(s) == {s[i] : i \in DOMAIN s}
KeysOf(s) == {s[i].k : i \in DOMAIN s}
DistinctKeys(s) == Cardinality(KeysOf(s)) = Len(s)

VisiblePairs(S, now) == {[k |-> k, v |-> S.last[k].v] : k \in VisibleKeys(S, now)}
PairsOf(s) == {[k |-> s[i].k, v |-> s[i].v] : i \in DOMAIN s}

\* one legal eviction of key k fired by callback cbid: that very value is the
\* current one, it has not been reported before, and the callback is the one in force
EvictionOK(S, x) ==
  /\ x.cb = S.cb /\ S.cb # NoCb
  /\ Lookup(S.last, x.k).st = "stored"
  /\ Lookup(S.last, x.k).v = x.v
  /\ (x.v = NilV \/ x.v \notin S.evicted)

StopCount(fn) == \* "stop:N" visitors
  IF fn = "stop:1" THEN 1 ELSE IF fn = "stop:2" THEN 2 ELSE IF fn = "stop:3" THEN 3 ELSE 0

(***************************************************************************)
(* Accept: is the observation allowed?  The conjuncts are grouped into     *)
(* aspects so that each property's check alarms only on its own clause:    *)
(*   "view"    results, flags, values handed to user functions     (C01)   *)
(*   "instant" reported expiration instants, TTLs, defaults        (C09)   *)
(*   "fn"      user-function invocation counts                     (C05)   *)
(*   "evict"   the callback ledger                                 (C06)   *)
(*   "vis"     Range / Items                                  (C07, C01)   *)
(*   "count"   Count                                               (C08)   *)
(***************************************************************************)
AllAspects == {"view", "instant", "fn", "evict", "vis", "count"}

AspectsOf(prop) ==
  CASE prop = "C01" -> {"view", "vis"}
    [] prop = "C05" -> {"fn", "view"}
    [] prop = "C06" -> {"evict"}
    [] prop = "C07" -> {"vis"}
    [] prop = "C08" -> {"count"}
    [] prop = "C09" -> {"instant"}
    [] OTHER -> AllAspects

On(A, a, cond) == (a \in A) => cond

CountBounds(S2, c, now) ==
  /\ Cardinality(VisibleKeys(S2, now)) <= c
  /\ c <= Cardinality(S2.pm)

AcceptCall(A, S, ev) ==
  LET now == ev.now
      k == ev.k
      vw == View(S, k, now)
      noEv == On(A, "evict", ev.evs = <<>>)
      res == On(A, "view", ev.rv = vw.v /\ ev.ok = vw.ok)
  IN
  CASE ev.op \in {"Set", "SetDefault", "SetForever"} -> noEv
    [] ev.op = "Get" -> noEv /\ res
    [] ev.op = "GetWithExpiration" -> noEv /\ res /\ On(A, "instant", ev.x = vw.e)
    [] ev.op = "GetWithTTL" ->
         /\ noEv /\ res
         /\ On(A, "instant", ev.x = (IF ~vw.ok THEN 0 ELSE IF vw.e > 0 THEN vw.e - now ELSE S.noexp))
    [] ev.op \in {"GetOrSet", "GetAndSet"} ->
         noEv /\ On(A, "view", IF vw.ok THEN ev.rv = vw.v /\ ev.ok ELSE ev.rv = ev.v /\ ~ev.ok)
    [] ev.op = "GetAndRefresh" -> noEv /\ res
    [] ev.op = "GetOrCompute" ->
         /\ noEv
         /\ On(A, "view", IF vw.ok THEN ev.rv = vw.v /\ ev.ok ELSE ev.rv = ev.v /\ ~ev.ok)
         /\ On(A, "fn", ev.n = (IF vw.ok THEN 0 ELSE 1))
    [] ev.op = "Compute" ->
         /\ noEv
         /\ On(A, "fn", ev.n = 1)
         /\ On(A, "view", ev.fo = vw.v /\ ev.fl = vw.ok)
         /\ LET r == FnResult(ev.fn, ev.v, vw.v, vw.ok)
            IN On(A, "view", IF r[2] THEN ev.rv = vw.v /\ ~ev.ok ELSE ev.rv = r[1] /\ ev.ok)
    [] ev.op \in {"GetAndDelete", "Delete"} ->
         /\ (ev.op = "GetAndDelete" => res)
         /\ IF vw.ok
            THEN \* a live entry is removed: Count drops by one, the callback fires once with it
                 /\ On(A, "count", ev.c1 = ev.c0 - 1)
                 /\ On(A, "evict", ev.evs = (IF S.cb = NoCb THEN <<>> ELSE <<[cb |-> S.cb, k |-> k, v |-> vw.v]>>))
            ELSE \* nothing visible: either nothing happens, or an expired leftover is removed
                 /\ On(A, "count", ev.c1 = ev.c0 \/ (ev.c1 = ev.c0 - 1 /\ ExpiredStored(S, k, now)))
                 /\ On(A, "evict",
                       IF ev.c1 = ev.c0 \/ S.cb = NoCb THEN ev.evs = <<>>
                       ELSE /\ ExpiredStored(S, k, now)
                            /\ ev.evs = <<[cb |-> S.cb, k |-> k, v |-> S.last[k].v]>>
                            /\ EvictionOK(S, ev.evs[1]))
    [] ev.op = "DeleteExpired" ->
         /\ On(A, "evict",
               /\ DistinctKeys(ev.evs)
               /\ \A i \in DOMAIN ev.evs : EvictionOK(S, ev.evs[i]) /\ ExpiredStored(S, ev.evs[i].k, now)
               /\ (S.cb # NoCb => Len(ev.evs) = ev.c0 - ev.c1))
         /\ On(A, "count", ev.c1 = Cardinality(VisibleKeys(S, now)))
    [] ev.op = "Range" ->
         /\ noEv
         /\ On(A, "vis",
               /\ DistinctKeys(ev.vis)
               /\ PairsOf(ev.vis) \subseteq VisiblePairs(S, now)
               /\ LET n == StopCount(ev.fn) vc == Cardinality(VisibleKeys(S, now))
                  IN Len(ev.vis) = (IF n = 0 \/ vc < n THEN vc ELSE n))
    [] ev.op = "Items" -> noEv /\ On(A, "vis", DistinctKeys(ev.vis) /\ PairsOf(ev.vis) = VisiblePairs(S, now))
    [] ev.op = "RangeNil" -> noEv
    [] ev.op = "Clear" -> noEv /\ On(A, "count", ev.c1 = 0)
    [] ev.op = "Count" -> noEv /\ On(A, "count", ev.x = ev.c1)
    [] ev.op = "DefaultExpiration" -> noEv /\ On(A, "instant", ev.x = S.def)
    [] ev.op \in {"SetDefaultExpiration", "SetEvictedCallback"} -> noEv
    [] OTHER -> FALSE

(***************************************************************************)
(* Next: logical successor state                                           *)
(***************************************************************************)
\* A slow user function: the clock advanced by ev.ft while it ran.  The value is stored, and its
\* expiry armed, when the function has returned (visibility of the old value is judged before it runs).
FnTime(ev) == IF "ft" \in DOMAIN ev THEN ev.ft ELSE 0

NextCall(S, ev) ==
  LET now == ev.now
      k == ev.k
      vw == View(S, k, now)
      d == DurationOf(S, ev)
  IN
  CASE ev.op \in {"Set", "SetDefault", "SetForever", "GetAndSet"} -> Store(S, k, ev.v, Expiration(S, d, now))
    [] ev.op \in {"GetOrSet", "GetOrCompute"} -> IF vw.ok THEN S ELSE Store(S, k, ev.v, Expiration(S, d, now + FnTime(ev)))
    [] ev.op = "GetAndRefresh" -> IF vw.ok THEN Store(S, k, vw.v, Expiration(S, d, now)) ELSE S
    [] ev.op = "Compute" ->
         LET r == FnResult(ev.fn, ev.v, vw.v, vw.ok)
         IN IF r[2] THEN (IF vw.ok THEN Remove(S, k) ELSE S) ELSE Store(S, k, r[1], Expiration(S, d, now + FnTime(ev)))
    [] ev.op \in {"GetAndDelete", "Delete"} ->
         IF vw.ok \/ ev.c1 < ev.c0
         THEN [Remove(S, k) EXCEPT !.evicted = @ \cup {ev.evs[i].v : i \in DOMAIN ev.evs}]
         ELSE S
    [] ev.op = "DeleteExpired" ->
         \* every expired entry is gone afterwards; the reported ones are marked evicted
         [S EXCEPT !.last = [x \in DOMAIN S.last |->
                               IF ExpiredStored(S, x, now) THEN [S.last[x] EXCEPT !.st = "absent"] ELSE S.last[x]],
                   !.pm = {x \in S.pm : ~ExpiredStored(S, x, now)},
                   !.evicted = @ \cup {ev.evs[i].v : i \in DOMAIN ev.evs}]
    [] ev.op = "Clear" ->
         [S EXCEPT !.last = [x \in DOMAIN S.last |-> [S.last[x] EXCEPT !.st = "absent"]], !.pm = {}]
    [] ev.op = "SetDefaultExpiration" -> [S EXCEPT !.def = ev.d]
    [] ev.op = "SetEvictedCallback" -> [S EXCEPT !.cb = IF ev.fn = "nil" THEN NoCb ELSE ev.fn]
    [] OTHER -> S

(* Count after any call stays within the logical bounds (C08) *)
Accept(A, S, ev) == AcceptCall(A, S, ev) /\ On(A, "count", CountBounds(NextCall(S, ev), ev.c1, ev.now))
Next(S, ev) == NextCall(S, ev)

=============================================================================

------------------------------- MODULE MapLin -------------------------------
(***************************************************************************)
(* Property-level CONCURRENT machine for Map / MapOf (C03, C04, C05, C07,  *)
(* C08, C16): linearizability with respect to MapSem.                      *)
(*                                                                         *)
(* Per thread:  idle --Call--> called --Lin--> lin --Ret--> idle.          *)
(* Lin(t) applies the sequential semantics atomically to the one abstract  *)
(* map and fixes the result the call must return; it is the only unlogged  *)
(* step, and trace validation searches for its position.                   *)
(*                                                                         *)
(* Range is not atomic.  Between its Call and Ret the machine tracks, per  *)
(* key, the set cand[k] of values (or Absent) the key has had since the    *)
(* traversal began.  A Visit(k, v) needs k unvisited and v in cand[k];     *)
(* at Ret every key that stayed present throughout must have been visited  *)
(* unless the visitor stopped the traversal.  The visitor may issue nested *)
(* calls on the same container (thread field `nest`).                      *)
(*                                                                         *)
(* Size is constrained only by the logged Quiesce event (C08).             *)
(***************************************************************************)
EXTENDS MapSem

CONSTANT Threads

VARIABLES M, th

AbsentMark == "<absent>"
NoCallRec == [op |-> "", k |-> "", v |-> "", fn |-> "", lo |-> 0, hi |-> 0]
NoRes == [rv |-> NilV, ok |-> FALSE, n |-> 0]
IdleNest == [st |-> "idle", call |-> NoCallRec, res |-> NoRes]
IdleThread == [st |-> "idle", call |-> NoCallRec, res |-> NoRes, cand |-> <<>>, visited |-> {}, nvis |-> 0, bal0 |-> {}, nest |-> IdleNest]

LinInit == M = MInit /\ th = [t \in Threads |-> IdleThread]

CallOf(ev) == [op |-> ev.op, k |-> ev.k, v |-> ev.v, fn |-> ev.fn, lo |-> ev.lo, hi |-> ev.hi]

CandOf(cand, k) == IF k \in DOMAIN cand THEN cand[k] ELSE {AbsentMark}
CandPut(cand, k, x) == [y \in (DOMAIN cand) \cup {k} |-> IF y = k THEN CandOf(cand, k) \cup {x} ELSE cand[y]]
Snapshot(Mx) == [k \in DOMAIN Mx.m |-> {Mx.m[k]}]

\* after a writer linearized: every traversal in flight learns the new mapping of the keys it touched
Touched(c, Mold) == IF c.op = "Clear" THEN DOMAIN Mold.m ELSE IF c.k = "" THEN {} ELSE {c.k}
NewMapping(Mnew, k) == IF k \in DOMAIN Mnew.m THEN Mnew.m[k] ELSE AbsentMark

RECURSIVE CandPutAll(_, _, _)
CandPutAll(cand, ks, Mnew) ==
  IF ks = {} THEN cand
  ELSE LET k == CHOOSE x \in ks : TRUE IN CandPutAll(CandPut(cand, k, NewMapping(Mnew, k)), ks \ {k}, Mnew)

Inform(thx, c, Mold, Mnew) ==
  [t \in Threads |-> IF thx[t].st = "range" THEN [thx[t] EXCEPT !.cand = CandPutAll(@, Touched(c, Mold), Mnew)] ELSE thx[t]]

IsWrite(c) == c.op \in {"Store", "LoadOrStore", "LoadAndStore", "LoadOrCompute", "Compute", "LoadAndDelete", "Delete", "Clear", "BulkStore", "BulkDelete"}

(* ---- actions ---- *)

Call(t, ev) ==
  LET c == CallOf(ev) IN
  \/ /\ th[t].st = "idle"
     /\ th' = [th EXCEPT ![t] = [IdleThread EXCEPT !.st = IF c.op = "Range" THEN "range" ELSE "called", !.call = c,
                                                  !.cand = IF c.op = "Range" THEN Snapshot(M) ELSE <<>>,
                                                  !.bal0 = M.bal]]
     /\ UNCHANGED M
  \/ /\ th[t].st = "range" /\ th[t].nest.st = "idle" /\ c.op # "Range"
     /\ th' = [th EXCEPT ![t].nest = [st |-> "called", call |-> c, res |-> NoRes]]
     /\ UNCHANGED M

Lin(t) ==
  \/ /\ th[t].st = "called"
     /\ LET c == th[t].call
            Mn == MNextCall(M, c)
        IN /\ M' = Mn
           /\ th' = Inform([th EXCEPT ![t].st = "lin", ![t].res = MResult(M, c)], c, M, Mn)
  \/ /\ th[t].st = "range" /\ th[t].nest.st = "called"
     /\ LET c == th[t].nest.call
            Mn == MNextCall(M, c)
        IN /\ M' = Mn
           /\ th' = Inform([th EXCEPT ![t].nest.st = "lin", ![t].nest.res = MResult(M, c)], c, M, Mn)

ResultOK(A, c, res, ev) ==
  CASE c.op \in {"Load", "LoadOrStore", "LoadAndStore", "LoadAndDelete"} -> On(A, "view", ev.rv = res.rv /\ ev.ok = res.ok)
    [] c.op = "LoadOrCompute" -> On(A, "view", ev.rv = res.rv /\ ev.ok = res.ok) /\ On(A, "fn", ev.n = res.n)
    [] c.op = "Compute" -> On(A, "view", ev.rv = res.rv /\ ev.ok = res.ok) /\ On(A, "fn", ev.n = 1)
    [] c.op \in {"BulkLoad", "BulkDelete"} -> On(A, "view", ev.n = ev.x)
    [] OTHER -> TRUE   \* Store, Delete, Clear, Size (constrained at quiescence only), BulkStore

Ret(A, t, ev) ==
  \/ /\ th[t].st = "lin" /\ ev.op = th[t].call.op
     /\ ResultOK(A, th[t].call, th[t].res, ev)
     /\ th' = [th EXCEPT ![t] = IdleThread]
     /\ UNCHANGED M
  \/ /\ th[t].st = "range" /\ th[t].nest.st = "lin" /\ ev.op = th[t].nest.call.op
     /\ ResultOK(A, th[t].nest.call, th[t].nest.res, ev)
     /\ th' = [th EXCEPT ![t].nest = IdleNest]
     /\ UNCHANGED M
  \/ /\ th[t].st = "range" /\ th[t].nest.st = "idle" /\ ev.op = "Range"
     /\ LET n == StopCount(th[t].call.fn)
            stopped == n > 0 /\ ev.x >= n
        IN On(A, "vis",
              /\ (n > 0 => ev.x <= n)
              /\ ev.n <= Cardinality(th[t].bal0)
              /\ (~stopped => /\ \A k \in DOMAIN th[t].cand : AbsentMark \notin th[t].cand[k] => k \in th[t].visited
                              \* ballast entries untouched during the traversal are all visited (a concurrent Clear may hide them)
                              /\ (M.bal = th[t].bal0 => ev.n = Cardinality(M.bal))))
     /\ th' = [th EXCEPT ![t] = IdleThread]
     /\ UNCHANGED M

Visit(A, t, ev) ==
  /\ th[t].st = "range" /\ th[t].nest.st = "idle"
  /\ On(A, "vis", /\ ev.k \notin th[t].visited
                  /\ ev.v \in (CandOf(th[t].cand, ev.k) \ {AbsentMark}))
  /\ th' = [th EXCEPT ![t].visited = @ \cup {ev.k}]
  /\ UNCHANGED M

Quiesce(A, ev) ==
  /\ \A t \in Threads : th[t].st = "idle"
  /\ On(A, "count", ev.x = MSize(M))
  /\ On(A, "vis", /\ DistinctKeys(ev.vis) /\ PairsOf(ev.vis) = AllPairs(M) /\ ev.n = Cardinality(M.bal))
  /\ UNCHANGED <<M, th>>
=============================================================================

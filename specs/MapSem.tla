------------------------------- MODULE MapSem -------------------------------
(***************************************************************************)
(* Property-level sequential semantics of Map / MapOf (C03, C04, C05, C07, *)
(* C08, C10, C11, C12): an ordinary map.  State                            *)
(*     m    partial function scenario key -> value                         *)
(*     bal  set of integers i such that ballast key b<i> is present with   *)
(*          the value B<i> (ballast is only touched by the aggregated      *)
(*          Bulk* calls, so its contents are a function of the key)        *)
(* Accept(A, M, ev) / Next(M, ev) have the same shape as in CacheSem.      *)
(***************************************************************************)
EXTENDS Integers, Sequences, FiniteSets, TLC

NilV == "nil"

MInit == [m |-> <<>>, bal |-> {}]

Has(M, k) == k \in DOMAIN M.m
MPut(M, k, v) == [M EXCEPT !.m = [x \in (DOMAIN M.m) \cup {k} |-> IF x = k THEN v ELSE M.m[x]]]
MDel(M, k) == [M EXCEPT !.m = [x \in (DOMAIN M.m) \ {k} |-> M.m[x]]]
MSize(M) == Cardinality(DOMAIN M.m) + Cardinality(M.bal)

MView(M, k) == IF Has(M, k) THEN [v |-> M.m[k], ok |-> TRUE] ELSE [v |-> NilV, ok |-> FALSE]

FnResult(fn, v, old, loaded) ==
  CASE fn = "set"         -> <<v, FALSE>>
    [] fn = "del"         -> <<NilV, TRUE>>
    [] fn = "delret"      -> <<v, TRUE>>
    [] fn = "keep"        -> <<old, FALSE>>
    [] fn = "toggle"      -> IF loaded THEN <<NilV, TRUE>> ELSE <<v, FALSE>>
    [] fn = "setifabsent" -> IF loaded THEN <<old, FALSE>> ELSE <<v, FALSE>>

StopCount(fn) == IF fn = "stop:1" THEN 1 ELSE IF fn = "stop:2" THEN 2 ELSE IF fn = "stop:3" THEN 3 ELSE 0
KeysOf(s) == {s[i].k : i \in DOMAIN s}
DistinctKeys(s) == Cardinality(KeysOf(s)) = Len(s)
PairsOf(s) == {[k |-> s[i].k, v |-> s[i].v] : i \in DOMAIN s}
AllPairs(M) == {[k |-> k, v |-> M.m[k]] : k \in DOMAIN M.m}

AllAspects == {"view", "fn", "vis", "count"}
AspectsOf(prop) ==
  CASE prop = "C05" -> {"fn", "view"}
    [] prop = "C07" -> {"vis"}
    [] prop = "C08" -> {"count"}
    [] OTHER -> AllAspects
On(A, a, cond) == (a \in A) => cond

\* the sequential result of a (non-bulk) call, used by Accept and by MapLin
MResult(M, c) ==
  LET vw == MView(M, c.k) IN
  CASE c.op = "Load" -> [rv |-> vw.v, ok |-> vw.ok, n |-> 0]
    [] c.op \in {"Store", "Delete", "Clear"} -> [rv |-> NilV, ok |-> FALSE, n |-> 0]
    [] c.op = "LoadOrStore" -> IF vw.ok THEN [rv |-> vw.v, ok |-> TRUE, n |-> 0] ELSE [rv |-> c.v, ok |-> FALSE, n |-> 0]
    [] c.op = "LoadAndStore" -> IF vw.ok THEN [rv |-> vw.v, ok |-> TRUE, n |-> 0] ELSE [rv |-> c.v, ok |-> FALSE, n |-> 0]
    [] c.op = "LoadOrCompute" -> IF vw.ok THEN [rv |-> vw.v, ok |-> TRUE, n |-> 0] ELSE [rv |-> c.v, ok |-> FALSE, n |-> 1]
    [] c.op = "Compute" ->
         LET r == FnResult(c.fn, c.v, vw.v, vw.ok)
         IN IF r[2] THEN [rv |-> vw.v, ok |-> FALSE, n |-> 1] ELSE [rv |-> r[1], ok |-> TRUE, n |-> 1]
    [] c.op = "LoadAndDelete" -> [rv |-> vw.v, ok |-> vw.ok, n |-> 0]
    [] OTHER -> [rv |-> NilV, ok |-> FALSE, n |-> 0]

MNextCall(M, c) ==
  LET vw == MView(M, c.k) IN
  CASE c.op \in {"Store", "LoadAndStore"} -> MPut(M, c.k, c.v)
    [] c.op \in {"LoadOrStore", "LoadOrCompute"} -> IF vw.ok THEN M ELSE MPut(M, c.k, c.v)
    [] c.op = "Compute" ->
         LET r == FnResult(c.fn, c.v, vw.v, vw.ok)
         IN IF r[2] THEN MDel(M, c.k) ELSE MPut(M, c.k, r[1])
    [] c.op \in {"LoadAndDelete", "Delete"} -> MDel(M, c.k)
    [] c.op = "Clear" -> MInit
    [] c.op = "BulkStore" -> [M EXCEPT !.bal = @ \cup (c.lo .. c.hi)]
    [] c.op = "BulkDelete" -> [M EXCEPT !.bal = @ \ (c.lo .. c.hi)]
    [] OTHER -> M

Accept(A, M, ev) ==
  LET vw == MView(M, ev.k)
      r == MResult(M, ev)
      inRange == M.bal \cap (ev.lo .. ev.hi)
  IN
  /\ CASE ev.op \in {"Load", "LoadOrStore", "LoadAndStore", "LoadAndDelete"} -> On(A, "view", ev.rv = r.rv /\ ev.ok = r.ok)
       [] ev.op = "LoadOrCompute" -> On(A, "view", ev.rv = r.rv /\ ev.ok = r.ok) /\ On(A, "fn", ev.n = r.n)
       [] ev.op = "Compute" -> /\ On(A, "view", ev.rv = r.rv /\ ev.ok = r.ok /\ ev.fo = vw.v /\ ev.fl = vw.ok)
                               /\ On(A, "fn", ev.n = 1)
       [] ev.op \in {"Store", "Delete", "Clear", "Scribble"} -> TRUE
       [] ev.op = "Range" ->
            On(A, "vis", /\ DistinctKeys(ev.vis)
                         /\ PairsOf(ev.vis) \subseteq AllPairs(M)
                         /\ LET n == StopCount(ev.fn) total == MSize(M)
                            IN Len(ev.vis) + ev.n = (IF n = 0 \/ total < n THEN total ELSE n)
                         /\ ev.n <= Cardinality(M.bal))
       [] ev.op = "Size" -> On(A, "count", ev.x = MSize(M))
       \* aggregated ballast calls: n = number of hits, x = number of hits carrying the right value
       [] ev.op = "BulkStore" -> TRUE
       [] ev.op = "BulkLoad" -> On(A, "view", ev.n = Cardinality(inRange) /\ ev.x = ev.n)
       [] ev.op = "BulkDelete" -> On(A, "view", ev.n = Cardinality(inRange) /\ ev.x = ev.n)
       [] OTHER -> FALSE
  /\ On(A, "count", ev.c1 = MSize(MNextCall(M, ev)))

MNext(M, ev) == MNextCall(M, ev)
=============================================================================

SPECIFICATION Spec
CONSTANTS
 Keys = {"k1", "k2"}
 Durations <- DurNs
 Defaults <- DefNs
 MaxNow = 1004
 MaxW = 3
 Now0 = 1000
 NoExp <- NoExpNs
 DefExp <- DefExpNs
 DumpEdges = FALSE
 Fns = {"set", "del", "delret", "keep", "toggle", "setifabsent"}
 Ticks = {1, 2}
 StopFns = {"all", "stop:1"}
 GetAndDeleteChecksExpiry = TRUE
 StrictExpiry = TRUE
 RefreshRearmsFromNow = TRUE
 DefaultResolvedAtCall = TRUE
 ComputeSeesExpired = FALSE
 DeleteExpiredFiresAll = TRUE
 GetOrSetRearmsOnHit = FALSE
VIEW view
INVARIANT Accepted
INVARIANT NoLiveDrop
INVARIANT CountIsPhysical
INVARIANT DefaultsAgree
PROPERTY ReadersLeaveEntriesAlone
PROPERTY OnlyExpiredOrAddressedRemoved
PROPERTY SettersOnly
CHECK_DEADLOCK FALSE

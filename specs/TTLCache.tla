------------------------------ MODULE TTLCache ------------------------------
(***************************************************************************)
(* Exhaustive sequential model for C01, C06, C07, C08, C09 (and the        *)
(* sequential part of C05): the implementation-shaped machine CacheImplSeq *)
(* is driven through every call of a menu, over every clock advance around *)
(* the expiration instants, and every observation it produces must be      *)
(* accepted by the property-level machine CacheSem, whose logical state S  *)
(* is carried along as a ghost.                                            *)
(*                                                                         *)
(* The state space is finite because the clock is bounded (MaxNow) and     *)
(* the number of value-creating calls is bounded (MaxW); reads are         *)
(* self-loops.  `out` (the last observation) is output only and hidden     *)
(* by the VIEW.  With DumpEdges = TRUE every step also carries its          *)
(* observation as a JSON string (outj): `tlc -simulate file=...` then      *)
(* writes behaviours the driver turns into programs that are replayed on   *)
(* the real code and compared event by event (spec -> code).               *)
(***************************************************************************)
EXTENDS CacheImplSeq, Json

CONSTANTS Keys, Durations, Defaults, MaxNow, MaxW, Now0, NoExp, DefExp, DumpEdges, Fns, Ticks, StopFns

VARIABLES P, S, now, nw, out, good, outj

vars == <<P, S, now, nw, out, good, outj>>
view == <<P, S, now, nw, good>>

Cbs == {NoCb, "cb1"}

NoCall == [op |-> "", k |-> "", v |-> "", d |-> 0, fn |-> ""]
Val(n) == "v" \o ToString(n)

Init ==
  /\ \E hasdef \in BOOLEAN, given \in Defaults, cb \in Cbs :
        /\ (~hasdef => given = NoExp)
        /\ P = INew(hasdef, given, cb, NoExp, DefExp)
        /\ S = InitState(NormDefault(hasdef, given, NoExp), cb, NoExp, DefExp)
  /\ now = Now0
  /\ nw = 0
  /\ out = [ev |-> "init"]
  /\ outj = (IF DumpEdges THEN ToJson([ev |-> "reset", hasdef |-> P.def0 # NoExp \/ TRUE, def |-> P.def0, cb |-> P.cb, noexp |-> NoExp, defexp |-> DefExp]) ELSE "")
  /\ good = TRUE

\* calls that create a value consume one of the MaxW value ids
Writers == {"Set", "SetDefault", "SetForever", "GetOrSet", "GetAndSet", "GetOrCompute", "Compute"}

Calls ==
  LET v == Val(nw + 1) IN
     {[NoCall EXCEPT !.op = o, !.k = k, !.v = v, !.d = d] : o \in {"Set", "GetOrSet", "GetAndSet", "GetOrCompute"}, k \in Keys, d \in Durations}
\cup {[NoCall EXCEPT !.op = o, !.k = k, !.v = v] : o \in {"SetDefault", "SetForever"}, k \in Keys}
\cup {[NoCall EXCEPT !.op = "Compute", !.k = k, !.v = v, !.d = d, !.fn = f] : k \in Keys, d \in {DefExp, 2}, f \in Fns}
\cup {[NoCall EXCEPT !.op = "GetAndRefresh", !.k = k, !.d = d] : k \in Keys, d \in Durations}
\cup {[NoCall EXCEPT !.op = o, !.k = k] : o \in {"Get", "GetWithExpiration", "GetWithTTL", "GetAndDelete", "Delete"}, k \in Keys}
\cup {[NoCall EXCEPT !.op = o] : o \in {"DeleteExpired", "Items", "RangeNil", "Clear", "Count", "DefaultExpiration"}}
\cup {[NoCall EXCEPT !.op = "Range", !.fn = f] : f \in StopFns}
\cup {[NoCall EXCEPT !.op = "SetDefaultExpiration", !.d = d] : d \in Defaults}
\cup {[NoCall EXCEPT !.op = "SetEvictedCallback", !.fn = f] : f \in {"cb1", "cb2", "nil"}}

Do ==
  \E c \in Calls :
    /\ (c.op \in Writers => nw < MaxW)
    /\ \E r \in ISteps(P, c, now) :
         /\ P' = r.P
         /\ out' = r.ev
         /\ S' = Next(S, r.ev)
         /\ good' = Accept(AllAspects, S, r.ev)
         /\ nw' = IF c.op \in Writers THEN nw + 1 ELSE nw
         /\ now' = now
         /\ outj' = (IF DumpEdges THEN ToJson(r.ev) ELSE "")

Tick ==
  \E dt \in Ticks :
    /\ now + dt <= MaxNow
    /\ now' = now + dt
    /\ out' = [ev |-> "tick", op |-> "Tick", d |-> dt, now |-> now, c0 |-> ICount(P), c1 |-> ICount(P)]
    /\ good' = CountBounds(S, ICount(P), now + dt)
    /\ UNCHANGED <<P, S, nw>>
    /\ outj' = (IF DumpEdges THEN ToJson(out') ELSE "")

NextStep == Do \/ Tick

Spec == Init /\ [][NextStep]_vars

(* The property-level machine accepts every observation of the implementation-shaped one *)
Accepted == good

(* Independent restatements, checked on the pair (P, S) directly *)
NoLiveDrop == \A k \in VisibleKeys(S, now) : IPresent(P, k) /\ P.items[k].v = S.last[k].v /\ P.items[k].e = S.last[k].e
NoExpiredServed == out.ev = "op" /\ out.ok /\ out.op \in {"Get", "GetWithExpiration", "GetWithTTL", "GetAndRefresh", "GetAndDelete"}
                     => \E k \in DOMAIN S.last : S.last[k].v = out.rv
CountIsPhysical == ICount(P) >= Cardinality(VisibleKeys(S, now)) /\ ICount(P) <= Cardinality(S.pm)
DefaultsAgree == P.def = S.def /\ P.cb = S.cb

(* Action properties on the implementation-shaped state alone (no reference to the acceptor):            *)
(* readers, Range/Items, Count, the default/callback setters and the passage of time leave every entry that *)
(* stays present exactly as it was (value and expiry: C09 "leave it untouched", "changing the default never *)
(* alters entries already stored"); an entry disappears physically only if it is expired at that instant,   *)
(* or the call is a remover addressed to that key, or Clear (C01 "an unexpired value is never dropped");    *)
(* the stored default and callback change only through their setters.                                       *)
ReaderOps == {"Get", "GetWithExpiration", "GetWithTTL", "Range", "RangeNil", "Items", "Count", "DefaultExpiration",
              "SetDefaultExpiration", "SetEvictedCallback", "DeleteExpired", "Tick"}
ReadersLeaveEntriesAlone ==
  [][out'.op \in ReaderOps => \A k \in (DOMAIN P.items) \cap (DOMAIN P'.items) : P'.items[k] = P.items[k]]_vars
OnlyExpiredOrAddressedRemoved ==
  [][\A k \in (DOMAIN P.items) \ (DOMAIN P'.items) :
        \/ IExpired(P.items[k], now')
        \/ out'.op = "Clear"
        \/ (out'.op \in {"Delete", "GetAndDelete", "Compute"} /\ out'.k = k)]_vars
SettersOnly == [][/\ (P'.def # P.def => out'.op = "SetDefaultExpiration")
                  /\ (P'.cb # P.cb => out'.op = "SetEvictedCallback")]_vars

\* model values for the configuration files (negative numbers cannot be written in a cfg)
NoExpNs == -2000000000
DefExpNs == -1000000000
DurNs == {NoExpNs, DefExpNs, -5, 0, 1, 2}
DefNs == {NoExpNs, DefExpNs, 0, 2}
\* seconds regime: the sentinels are -2 and -1 units
NoExpS == -2
DefExpS == -1
DurS == {NoExpS, DefExpS, -5, 0, 1, 2}
DefS == {NoExpS, DefExpS, 0, 2}
\* the small menu of the transition-coverage (edge dump) configuration
DurCover == {NoExpNs, DefExpNs, 0, 1}
DefCover == {NoExpNs, 0, 2}
=============================================================================

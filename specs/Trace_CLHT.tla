----------------------------- MODULE Trace_CLHT -----------------------------
(***************************************************************************)
(* Atomic-level conformance of REAL runs against the implementation-shaped *)
(* machine CLHT (code -> spec at the granularity of synchronisation        *)
(* steps).  The scheduler logs every sync/atomic, lock and cond operation  *)
(* of a run with its site; the driver maps sites to CLHT labels.  Here the *)
(* specification is instantiated with the REAL geometry and the projected  *)
(* initial table of that run, and is driven along the recorded schedule:   *)
(*                                                                         *)
(*   step event  (t, labels)  thread t must be at one of `labels` and      *)
(*                            takes that step (its enabling condition -    *)
(*                            lock free, wake-up received - must hold)     *)
(*   call / ret  events       consume the Loop / Fin steps; at Fin the     *)
(*                            result the specification computed must equal *)
(*                            the result the real call returned            *)
(*   silent steps             labels with no real yield point (local       *)
(*                            computation, loop tests, procedure returns)  *)
(*                            are taken when the thread's next event is at *)
(*                            the head of the log                          *)
(*   final event              physical content and counter of the spec's   *)
(*                            current table equal the real Range / Size    *)
(*                                                                         *)
(* A mismatch means the machine is no longer the code's shape (SPEC-DRIFT),*)
(* never a verdict about the code.                                         *)
(***************************************************************************)
EXTENDS MC_TraceCLHT, Json, IOUtils

Trace == ndJsonDeserialize(IOEnv.TRACE)

VARIABLE l
tvars == <<l, vars>>

ThreadStep(t) == thr(t) \/ load(t) \/ doCompute(t) \/ resize(t) \/ waitForResize(t) \/ rangeAll(t) \/ clearMap(t)

TInit == l = 1 /\ Init /\ TLCSet(1, 1)

LastRes(t) == IF Menu[t][pcnt[t]].op = "Load" THEN lres[t] ELSE cres[t]

Consume ==
  /\ l <= Len(Trace)
  /\ LET ev == Trace[l] t == ev.t IN
       CASE ev.ev = "step" -> pc[t] \in {ev.labels[i] : i \in DOMAIN ev.labels} /\ ThreadStep(t)
         [] ev.ev = "call" -> pc[t] = "Loop" /\ pcnt[t] < Len(Menu[t]) /\ Menu[t][pcnt[t] + 1].op = ev.op /\ Menu[t][pcnt[t] + 1].k = ev.k /\ thr(t)
         [] ev.ev = "ret" ->
              /\ pc[t] = "Fin"
              /\ (ev.op \in {"Load", "LoadOrStore", "LoadAndStore", "LoadOrCompute", "Compute", "LoadAndDelete"} => LastRes(t).rv = ev.rv /\ LastRes(t).ok = ev.ok)
              /\ (ev.op \in {"LoadOrCompute", "Compute"} => fncalls[t] = ev.n)
              \* a traversal must have visited exactly the pairs the specification's traversal collected along the same schedule
              /\ (ev.op = "Range" =>
                    LET sv == {rvis[t][i] : i \in DOMAIN rvis[t]} IN
                      /\ {[k |-> p.k, v |-> p.v] : p \in {q \in sv : q.k \notin BallastKeys}} = {[k |-> ev.vis[i].k, v |-> ev.vis[i].v] : i \in DOMAIN ev.vis}
                      /\ Cardinality({q \in sv : q.k \in BallastKeys}) = ev.n)
              /\ thr(t)
         [] ev.ev = "final" ->
              /\ \A x \in Threads : pc[x] = "Done"
              /\ tabs[cur].size = ev.x
              /\ LET P == PhysM(tabs[cur]) scen == (DOMAIN P) \ BallastKeys IN
                   /\ scen = {ev.vis[i].k : i \in DOMAIN ev.vis}
                   /\ \A i \in DOMAIN ev.vis : P[ev.vis[i].k] = ev.vis[i].v
                   /\ Cardinality((DOMAIN P) \cap BallastKeys) = ev.n
              /\ UNCHANGED vars
         [] OTHER -> FALSE
  /\ l' = l + 1

Silent ==
  /\ l <= Len(Trace)
  /\ Trace[l].ev \in {"step", "call", "ret"}
  /\ pc[Trace[l].t] \in SilentLabels
  /\ ThreadStep(Trace[l].t)
  /\ UNCHANGED l

\* before the final event every thread runs its remaining silent steps (returns)
Drain ==
  /\ l <= Len(Trace) /\ Trace[l].ev = "final"
  /\ \E t \in Threads : (pc[t] \in SilentLabels \/ (pc[t] = "Loop" /\ pcnt[t] = Len(Menu[t]))) /\ ThreadStep(t)
  /\ UNCHANGED l

TraceNext == Consume \/ Silent \/ Drain
TraceSpec == TInit /\ [][TraceNext]_tvars

Mark == TLCSet(1, IF l > TLCGet(1) THEN l ELSE TLCGet(1))
Report == PrintT(<<"HWM", TLCGet(1) - 1, Len(Trace)>>)
=============================================================================

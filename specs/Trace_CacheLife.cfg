SPECIFICATION Spec
CONSTRAINT Mark
POSTCONDITION Report
CHECK_DEADLOCK FALSE

--------------------------- MODULE Trace_CacheLife ---------------------------
(* Trace validation of janitor / lifecycle observations against CacheLife. *)
EXTENDS CacheLife, Json, IOUtils

Trace == ndJsonDeserialize(IOEnv.TRACE)

VARIABLES l, L, mode
vars == <<l, L, mode>>

Init == l = 1 /\ L = LInit(TRUE, 0, 0, "", 0) /\ mode = "none" /\ TLCSet(1, 1)

StepOK(ev) ==
  CASE ev.ev = "reset" /\ ev.ctor = "lifecycle" -> TRUE
    [] ev.ev = "reset" ->
         \* a janitor (one ticker with the normalised period) exists iff the normalised interval is positive
         LET iv == NormInterval(ev.hasintv, ev.intv, ev.defexp)
         IN ev.n = (IF iv > 0 THEN 1 ELSE 0) /\ (iv > 0 => ev.x = iv)
    [] ev.ev = "life" /\ ev.op = "created" -> ev.x = ev.n        \* one janitor per cache
    [] ev.ev = "life" /\ ev.op = "collected" ->
         \* the baseline finaliser ran (otherwise the driver reports INCONCLUSIVE, not here)
         ev.ok => (ev.x = 0 /\ ev.c0 <= 0 /\ ev.c1 = ev.d)
    [] ev.ev = "life" ->
         LET L1 == CASE ev.op = "set" -> LSet(L, ev.k, ev.d)
                     [] ev.op = "advance" -> LAdvance(L, ev.d)
                     [] ev.op = "get" -> LGet(L, ev.k)
                     [] ev.op = "deleteexpired" -> LDeleteExpired(L)
                     [] ev.op = "setcb" -> LSetCb(L, ev.k)
                     [] OTHER -> L
         IN ObserveOK(L1, ev.x, ev.evs)
    [] OTHER -> FALSE

StepNext(ev) ==
  CASE ev.ev = "reset" /\ ev.ctor = "lifecycle" -> L
    [] ev.ev = "reset" -> LInit(ev.hasintv, ev.intv, ev.defexp, ev.cb, ev.now)
    [] ev.ev = "life" /\ ev.op \in {"created", "collected"} -> L
    [] ev.ev = "life" ->
         LObserved(CASE ev.op = "set" -> LSet(L, ev.k, ev.d)
                     [] ev.op = "advance" -> LAdvance(L, ev.d)
                     [] ev.op = "get" -> LGet(L, ev.k)
                     [] ev.op = "deleteexpired" -> LDeleteExpired(L)
                     [] ev.op = "setcb" -> LSetCb(L, ev.k)
                     [] OTHER -> L)
    [] OTHER -> L

Step == /\ l <= Len(Trace)
        /\ StepOK(Trace[l])
        /\ L' = StepNext(Trace[l])
        /\ mode' = mode
        /\ l' = l + 1

Spec == Init /\ [][Step]_vars
Mark == TLCSet(1, IF l > TLCGet(1) THEN l ELSE TLCGet(1))
Report == PrintT(<<"HWM", TLCGet(1) - 1, Len(Trace)>>)
=============================================================================

--------------------------- MODULE Trace_CacheLin ---------------------------
(***************************************************************************)
(* Trace validation of concurrent Cache / CacheOf histories against        *)
(* CacheLin.  Unlogged internal steps searched by TLC: Lin(t) and          *)
(* DERemove(t, k).                                                         *)
(***************************************************************************)
EXTENDS CacheLin, Json, IOUtils

Trace == ndJsonDeserialize(IOEnv.TRACE)
A == AspectsOf(IOEnv.PROP)

VARIABLE l
vars == <<l, S, th, now, bal>>

Init == l = 1 /\ LinInit /\ TLCSet(1, 1)

Consume ==
  /\ l <= Len(Trace)
  /\ LET ev == Trace[l] IN
       CASE ev.ev = "reset" ->
              /\ On(A, "instant", ev.x = NormDefault(ev.hasdef, ev.def, ev.noexp))
              /\ S' = InitState(NormDefault(ev.hasdef, ev.def, ev.noexp), ev.cb, ev.noexp, ev.defexp)
              /\ th' = [t \in Threads |-> IdleThread]
              /\ now' = ev.now /\ bal' = {}
         [] ev.ev = "call" -> Call(ev.t, ev)
         [] ev.ev = "ret" -> Ret(A, ev.t, ev)
         [] ev.ev = "visit" -> Visit(A, ev.t, ev)
         [] ev.ev = "evict" -> Evict(A, ev.t, ev)
         [] ev.ev = "quiesce" -> Quiesce(A, ev)
         [] ev.ev = "phase" -> On(A, "instant", ev.now = now) /\ UNCHANGED <<S, th, now, bal>>
         [] ev.ev = "end" -> UNCHANGED <<S, th, now, bal>>
         [] OTHER -> FALSE
  /\ l' = l + 1

Internal ==
  /\ UNCHANGED l
  /\ \/ \E t \in Threads : Lin(t)
     \/ \E t \in Threads : th[t].st = "de" /\ \E k \in DOMAIN S.last : DERemove(t, k)

TraceNext == Consume \/ Internal
Spec == Init /\ [][TraceNext]_vars

Mark == TLCSet(1, IF l > TLCGet(1) THEN l ELSE TLCGet(1))
Report == PrintT(<<"HWM", TLCGet(1) - 1, Len(Trace)>>)
=============================================================================

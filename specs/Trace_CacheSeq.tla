--------------------------- MODULE Trace_CacheSeq ---------------------------
(***************************************************************************)
(* Sequential trace validation (code -> spec) for Cache / CacheOf at the   *)
(* property level: every recorded call of every recorded run must be an    *)
(* observation CacheSem allows.  The trace file (ndjson, several runs      *)
(* separated by "reset" events) is named by the environment variable       *)
(* TRACE.  The spec is deterministic, so the search is linear; acceptance  *)
(* is by high-water mark: the POSTCONDITION prints how far the trace could *)
(* be followed and the driver compares that with the number of lines.      *)
(***************************************************************************)
EXTENDS CacheSem, Json, IOUtils

Trace == ndJsonDeserialize(IOEnv.TRACE)
A == AspectsOf(IOEnv.PROP)

VARIABLES l, S

vars == <<l, S>>

ResetState(h) == InitState(NormDefault(h.hasdef, h.def, h.noexp), h.cb, h.noexp, h.defexp)

Init == /\ l = 1
        /\ S = InitState(0, NoCb, 0, 0)
        /\ TLCSet(1, 1)

StepOK(ev) ==
  CASE ev.ev = "reset" -> \* C09: default reported right after construction is the normalised one; a fresh cache is empty
                          /\ On(A, "instant", ev.x = NormDefault(ev.hasdef, ev.def, ev.noexp))
                          /\ On(A, "count", ev.c1 = 0)
    [] ev.ev = "tick"  -> On(A, "count", ev.c1 = ev.c0 /\ CountBounds(S, ev.c1, ev.now + ev.d))
    [] ev.ev = "op"    -> ev.note # "hang" /\ Accept(A, S, ev)   \* "hang": the call did not return (watchdog of the harness)
    [] OTHER -> FALSE

StepNext(ev) ==
  CASE ev.ev = "reset" -> ResetState(ev)
    [] ev.ev = "op"    -> Next(S, ev)
    [] OTHER -> S

Step == /\ l <= Len(Trace)
        /\ StepOK(Trace[l])
        /\ S' = StepNext(Trace[l])
        /\ l' = l + 1

Spec == Init /\ [][Step]_vars

\* high-water mark (needs -workers 1)
Mark == TLCSet(1, IF l > TLCGet(1) THEN l ELSE TLCGet(1))

Report == PrintT(<<"HWM", TLCGet(1) - 1, Len(Trace)>>)
=============================================================================

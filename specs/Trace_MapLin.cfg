SPECIFICATION Spec
CONSTANT Threads = {0, 1, 2, 3, 4, 5, 6, 7, 8, 9, 10, 11, 12}
CONSTRAINT Mark
POSTCONDITION Report
CHECK_DEADLOCK FALSE

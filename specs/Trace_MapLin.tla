---------------------------- MODULE Trace_MapLin ----------------------------
(***************************************************************************)
(* Trace validation of concurrent Map / MapOf histories against MapLin.    *)
(* Logged events are consumed in order; Lin(t) is the unlogged internal    *)
(* step TLC searches for (depth-first queue, high-water mark acceptance).  *)
(***************************************************************************)
EXTENDS MapLin, Json, IOUtils

Trace == ndJsonDeserialize(IOEnv.TRACE)
A == AspectsOf(IOEnv.PROP)

VARIABLE l
vars == <<l, M, th>>

Init == l = 1 /\ LinInit /\ TLCSet(1, 1)

Consume ==
  /\ l <= Len(Trace)
  /\ LET ev == Trace[l] IN
       CASE ev.ev = "reset" -> M' = MInit /\ th' = [t \in Threads |-> IdleThread]
         [] ev.ev = "call" -> Call(ev.t, ev)
         [] ev.ev = "ret" -> Ret(A, ev.t, ev)
         [] ev.ev = "visit" -> Visit(A, ev.t, ev)
         [] ev.ev = "quiesce" -> Quiesce(A, ev)
         [] ev.ev \in {"phase", "end"} -> UNCHANGED <<M, th>>
         [] OTHER -> FALSE
  /\ l' = l + 1

Internal == \E t \in Threads : Lin(t) /\ UNCHANGED l

TraceNext == Consume \/ Internal
Spec == Init /\ [][TraceNext]_vars

Mark == TLCSet(1, IF l > TLCGet(1) THEN l ELSE TLCGet(1))
Report == PrintT(<<"HWM", TLCGet(1) - 1, Len(Trace)>>)
=============================================================================

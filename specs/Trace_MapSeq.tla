---------------------------- MODULE Trace_MapSeq ----------------------------
(* Sequential trace validation for Map / MapOf against MapSem (see Trace_CacheSeq). *)
EXTENDS MapSem, Json, IOUtils

Trace == ndJsonDeserialize(IOEnv.TRACE)
A == AspectsOf(IOEnv.PROP)

VARIABLES l, M
vars == <<l, M>>

Init == l = 1 /\ M = MInit /\ TLCSet(1, 1)

StepOK(ev) ==
  CASE ev.ev = "reset" -> On(A, "count", ev.c1 = 0)
    [] ev.ev = "op" -> Accept(A, M, ev)
    [] OTHER -> FALSE

Step == /\ l <= Len(Trace)
        /\ StepOK(Trace[l])
        /\ M' = (IF Trace[l].ev = "reset" THEN MInit ELSE MNext(M, Trace[l]))
        /\ l' = l + 1

Spec == Init /\ [][Step]_vars
Mark == TLCSet(1, IF l > TLCGet(1) THEN l ELSE TLCGet(1))
Report == PrintT(<<"HWM", TLCGet(1) - 1, Len(Trace)>>)
=============================================================================

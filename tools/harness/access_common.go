package main

// Pin fixes the placement of keys for every table generation: bucket index
// is B & (tableLen-1), H is the bucket-local hash (20-bit top hash for Map,
// 7-bit h2 for MapOf). Keys not listed are spread by a fixed FNV hash over
// the buckets whose low 5 bits are not in Avoid.
type Pin struct {
	Keys  map[string][2]uint64 `json:"keys"`
	Avoid []uint64             `json:"avoid"`
	Seed  uint64               `json:"seed"` // 0 = leave makeSeed alone
	All   []uint64             `json:"all"`  // [b, h]: every key collides completely
}

var curPin *Pin

func fnv(s string) uint64 {
	h := uint64(14695981039346656037)
	for i := 0; i < len(s); i++ {
		h ^= uint64(s[i])
		h *= 1099511628211
	}
	return h
}

func pinHash(name string) (b, h uint64) { return pinHashP(curPin, name) }

func pinHashP(curPin *Pin, name string) (b, h uint64) {
	if bh, ok := curPin.Keys[name]; ok {
		return bh[0], bh[1]
	}
	if len(curPin.All) == 2 {
		return curPin.All[0], curPin.All[1]
	}
	x := fnv(name)
	b = x >> 8 & 0xffffff
	for {
		bad := false
		for _, a := range curPin.Avoid {
			if b&31 == a&31 {
				bad = true
			}
		}
		if !bad {
			break
		}
		b++
	}
	return b, x & 0x7f
}

// the degraded builds keep the API-level checks running when an in-package access file no longer compiles
// against a refactored tree: layout pinning, physical items and table projection are independent features
const haveAccess = havePins && haveCPins && havePhys && haveProject

//go:build nocpins || nopins

package main

import "github.com/fufuok/cache"

const haveCPins = false

func pinCacheOf[K comparable, V any](c cache.CacheOf[K, V], kc KeyCodec[K]) {}

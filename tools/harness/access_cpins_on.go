//go:build !nocpins && !nopins

package main

import "github.com/fufuok/cache"

const haveCPins = true

func pinCacheOf[K comparable, V any](c cache.CacheOf[K, V], kc KeyCodec[K]) {
	if curPin == nil {
		return
	}
	cache.VerifSetHasherOf(c, pinnedHasher(kc))
}

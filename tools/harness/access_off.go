//go:build noaccess

package main

import "github.com/fufuok/cache"

// Degraded build: the in-package access files did not compile against the
// working tree (a refactor renamed something they refer to). API-level checks
// still run; layout pinning and state projection are unavailable.

const haveAccess = false

type Pin struct {
	Keys  map[string][2]uint64 `json:"keys"`
	Avoid []uint64             `json:"avoid"`
	Seed  uint64               `json:"seed"`
	All   []uint64             `json:"all"`
}

var curPin *Pin

func applyPin(p *Pin) {}
func clearPin()       {}

func pinMapOf[K comparable, V any](m cache.MapOf[K, V], kc KeyCodec[K])     {}
func pinCacheOf[K comparable, V any](c cache.CacheOf[K, V], kc KeyCodec[K]) {}

func physOf(c CacheAPI, unit int64) ([]Phys, bool) { return nil, false }

type VerifCell struct {
	Keys    []string
	Vals    []string
	Present []bool
	Hash    []uint64
	Locked  bool
}

type TableInfo struct {
	Ptr      uintptr
	Len      int
	Resizing int64
	Counter  int64
	Seed     uint64
	Chains   [][]VerifCell
	Growths  int64
	Shrinks  int64
}

func tableOf(x interface{}, chains bool) (TableInfo, bool) { return TableInfo{}, false }

func geometry() (mapSlots, mapOfSlots, minLen int) { return 3, 5, 32 }

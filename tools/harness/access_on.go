//go:build !noaccess

package main

import (
	"sort"

	"github.com/fufuok/cache"
	"github.com/fufuok/cache/internal/xsync"
)

const haveAccess = true

// Pin fixes the placement of keys for every table generation: bucket index
// is B & (tableLen-1), H is the bucket-local hash (20-bit top hash for Map,
// 7-bit h2 for MapOf). Keys not listed are spread by a fixed FNV hash over
// the buckets whose low 5 bits are not in Avoid.
type Pin struct {
	Keys  map[string][2]uint64 `json:"keys"`
	Avoid []uint64             `json:"avoid"`
	Seed  uint64               `json:"seed"` // 0 = leave makeSeed alone
	All   []uint64             `json:"all"`  // [b, h]: every key collides completely
}

var curPin *Pin

func fnv(s string) uint64 {
	h := uint64(14695981039346656037)
	for i := 0; i < len(s); i++ {
		h ^= uint64(s[i])
		h *= 1099511628211
	}
	return h
}

func pinHash(name string) (b, h uint64) { return pinHashP(curPin, name) }

func pinHashP(curPin *Pin, name string) (b, h uint64) {
	if bh, ok := curPin.Keys[name]; ok {
		return bh[0], bh[1]
	}
	if len(curPin.All) == 2 {
		return curPin.All[0], curPin.All[1]
	}
	x := fnv(name)
	b = x >> 8 & 0xffffff
	for {
		bad := false
		for _, a := range curPin.Avoid {
			if b&31 == a&31 {
				bad = true
			}
		}
		if !bad {
			break
		}
		b++
	}
	return b, x & 0x7f
}

func applyPin(p *Pin) {
	curPin = p
	if p == nil {
		return
	}
	xsync.VerifHashString = func(s string, seed uint64) (uint64, bool) {
		b, h := pinHash(s)
		return (h&0xfffff)<<44 | (b & (1<<40 - 1)), true
	}
	if p.Seed != 0 {
		xsync.VerifMakeSeed = func() uint64 { return p.Seed }
	}
}

func clearPin() {
	curPin = nil
	xsync.VerifHashString = nil
	xsync.VerifMakeSeed = nil
}

func pinnedHasher[K comparable](kc KeyCodec[K]) func(K, uint64) uint64 {
	p := curPin
	return func(k K, seed uint64) uint64 {
		b, h := pinHashP(p, kc.Dec(k))
		return b<<7 | (h & 0x7f)
	}
}

func pinMapOf[K comparable, V any](m cache.MapOf[K, V], kc KeyCodec[K]) {
	if curPin == nil {
		return
	}
	if x, ok := m.(*xsync.MapOf[K, V]); ok {
		xsync.VerifSetHasher(x, pinnedHasher(kc))
	}
}

func pinCacheOf[K comparable, V any](c cache.CacheOf[K, V], kc KeyCodec[K]) {
	if curPin == nil {
		return
	}
	cache.VerifSetHasherOf(c, pinnedHasher(kc))
}

func (a *cacheAdapter) physItems(unit int64) []Phys {
	var r []Phys
	for _, it := range cache.VerifPhysItems(a.c) {
		r = append(r, Phys{K: it.K, V: anyVals.Dec(it.V), E: it.E / unit})
	}
	sort.Slice(r, func(i, j int) bool { return r[i].K < r[j].K })
	return r
}

func (a *cacheOfAdapter[K, V]) physItems(unit int64) []Phys {
	var r []Phys
	for _, it := range cache.VerifPhysItemsOf(a.c) {
		r = append(r, Phys{K: a.kc.Dec(it.K), V: a.vc.Dec(it.V), E: it.E / unit})
	}
	sort.Slice(r, func(i, j int) bool { return r[i].K < r[j].K })
	return r
}

func physOf(c CacheAPI, unit int64) ([]Phys, bool) {
	if p, ok := c.(interface{ physItems(int64) []Phys }); ok {
		return p.physItems(unit), true
	}
	return nil, false
}

// tableInfo projects the underlying table of any container.
func (a mapAdapter) table(chains bool) (xsync.VerifTable, bool) {
	if x, ok := a.m.(*xsync.Map); ok {
		return xsync.VerifProjectMap(x, chains, func(v interface{}) string { return anyVals.Dec(v) }), true
	}
	return xsync.VerifTable{}, false
}

func (a mapOfAdapter[K, V]) table(chains bool) (xsync.VerifTable, bool) {
	if x, ok := a.m.(*xsync.MapOf[K, V]); ok {
		return xsync.VerifProjectMapOf(x, chains, a.kc.Dec, a.vc.Dec), true
	}
	return xsync.VerifTable{}, false
}

func (a *cacheAdapter) table(chains bool) (xsync.VerifTable, bool) {
	if x := cache.VerifUnderlyingMap(a.c); x != nil {
		return xsync.VerifProjectMap(x, chains, nil), true
	}
	return xsync.VerifTable{}, false
}

func (a *cacheOfAdapter[K, V]) table(chains bool) (xsync.VerifTable, bool) {
	return cache.VerifTableOf(a.c, chains, a.kc.Dec)
}

type TableInfo = xsync.VerifTable

func tableOf(x interface{}, chains bool) (TableInfo, bool) {
	if p, ok := x.(interface {
		table(bool) (xsync.VerifTable, bool)
	}); ok {
		return p.table(chains)
	}
	return TableInfo{}, false
}

func geometry() (mapSlots, mapOfSlots, minLen int) {
	g := xsync.VerifGeometry()
	return g.MapSlots, g.MapOfSlots, g.MinTableLen
}

//go:build nophys

package main

const havePhys = false

func physOf(c CacheAPI, unit int64) ([]Phys, bool) { return nil, false }

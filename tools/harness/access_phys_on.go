//go:build !nophys

package main

import (
	"sort"

	"github.com/fufuok/cache"
)

const havePhys = true

func (a *cacheAdapter) physItems(unit int64) []Phys {
	var r []Phys
	for _, it := range cache.VerifPhysItems(a.c) {
		r = append(r, Phys{K: it.K, V: anyVals.Dec(it.V), E: it.E / unit})
	}
	sort.Slice(r, func(i, j int) bool { return r[i].K < r[j].K })
	return r
}

func (a *cacheOfAdapter[K, V]) physItems(unit int64) []Phys {
	var r []Phys
	for _, it := range cache.VerifPhysItemsOf(a.c) {
		r = append(r, Phys{K: a.kc.Dec(it.K), V: a.vc.Dec(it.V), E: it.E / unit})
	}
	sort.Slice(r, func(i, j int) bool { return r[i].K < r[j].K })
	return r
}

func physOf(c CacheAPI, unit int64) ([]Phys, bool) {
	if p, ok := c.(interface{ physItems(int64) []Phys }); ok {
		return p.physItems(unit), true
	}
	return nil, false
}

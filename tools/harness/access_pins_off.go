//go:build nopins

package main

import "github.com/fufuok/cache"

const havePins = false

func applyPin(p *Pin) {}
func clearPin()       {}

func pinMapOf[K comparable, V any](m cache.MapOf[K, V], kc KeyCodec[K]) {}

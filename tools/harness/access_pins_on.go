//go:build !nopins

package main

import (
	"github.com/fufuok/cache"
	"github.com/fufuok/cache/internal/xsync"
)

const havePins = true

func applyPin(p *Pin) {
	curPin = p
	if p == nil {
		return
	}
	xsync.VerifHashString = func(s string, seed uint64) (uint64, bool) {
		b, h := pinHash(s)
		return (h&0xfffff)<<44 | (b & (1<<40 - 1)), true
	}
	if p.Seed != 0 {
		xsync.VerifMakeSeed = func() uint64 { return p.Seed }
	}
}

func clearPin() {
	curPin = nil
	xsync.VerifHashString = nil
	xsync.VerifMakeSeed = nil
}

func pinnedHasher[K comparable](kc KeyCodec[K]) func(K, uint64) uint64 {
	p := curPin
	return func(k K, seed uint64) uint64 {
		b, h := pinHashP(p, kc.Dec(k))
		return b<<7 | (h & 0x7f)
	}
}

func pinMapOf[K comparable, V any](m cache.MapOf[K, V], kc KeyCodec[K]) {
	if curPin == nil {
		return
	}
	if x, ok := m.(*xsync.MapOf[K, V]); ok {
		xsync.VerifSetHasher(x, pinnedHasher(kc))
	}
}

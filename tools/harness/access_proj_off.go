//go:build noproject

package main

const haveProject = false

type VerifCell struct {
	Keys    []string
	Vals    []string
	Present []bool
	Hash    []uint64
	Locked  bool
}

type TableInfo struct {
	Ptr      uintptr
	Len      int
	Resizing int64
	Counter  int64
	Seed     uint64
	Chains   [][]VerifCell
	Growths  int64
	Shrinks  int64
}

func tableOf(x interface{}, chains bool) (TableInfo, bool) { return TableInfo{}, false }

func geometry() (mapSlots, mapOfSlots, minLen int) { return 3, 5, 32 }

//go:build !noproject

package main

import (
	"github.com/fufuok/cache"
	"github.com/fufuok/cache/internal/xsync"
)

const haveProject = true

func (a mapAdapter) table(chains bool) (xsync.VerifTable, bool) {
	if x, ok := a.m.(*xsync.Map); ok {
		return xsync.VerifProjectMap(x, chains, func(v interface{}) string { return anyVals.Dec(v) }), true
	}
	return xsync.VerifTable{}, false
}

func (a mapOfAdapter[K, V]) table(chains bool) (xsync.VerifTable, bool) {
	if x, ok := a.m.(*xsync.MapOf[K, V]); ok {
		return xsync.VerifProjectMapOf(x, chains, a.kc.Dec, a.vc.Dec), true
	}
	return xsync.VerifTable{}, false
}

func (a *cacheAdapter) table(chains bool) (xsync.VerifTable, bool) {
	if x := cache.VerifUnderlyingMap(a.c); x != nil {
		return xsync.VerifProjectMap(x, chains, nil), true
	}
	return xsync.VerifTable{}, false
}

func (a *cacheOfAdapter[K, V]) table(chains bool) (xsync.VerifTable, bool) {
	return cache.VerifTableOf(a.c, chains, a.kc.Dec)
}

type TableInfo = xsync.VerifTable

func tableOf(x interface{}, chains bool) (TableInfo, bool) {
	if p, ok := x.(interface {
		table(bool) (xsync.VerifTable, bool)
	}); ok {
		return p.table(chains)
	}
	return TableInfo{}, false
}

func geometry() (mapSlots, mapOfSlots, minLen int) {
	g := xsync.VerifGeometry()
	return g.MapSlots, g.MapOfSlots, g.MinTableLen
}

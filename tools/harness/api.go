package main

import (
	"fmt"
	"strconv"
	"strings"
	"time"

	"github.com/fufuok/cache"
)

// The harness talks to all containers through string-domain interfaces:
// keys are abstract key names ("k1", "b17", ...), values are unique write ids
// ("v12") and "nil" stands for the zero value / absence.

const Nil = "nil"

type MapAPI interface {
	Load(k string) (string, bool)
	Store(k, v string)
	LoadOrStore(k, v string) (string, bool)
	LoadAndStore(k, v string) (string, bool)
	LoadOrCompute(k string, fn func() string) (string, bool)
	Compute(k string, fn func(old string, loaded bool) (string, bool)) (string, bool)
	LoadAndDelete(k string) (string, bool)
	Delete(k string)
	Range(f func(k, v string) bool)
	Clear()
	Size() int
	Raw() interface{}
}

type CacheAPI interface {
	Set(k, v string, d int64)
	SetDefault(k, v string)
	SetForever(k, v string)
	Get(k string) (string, bool)
	GetWithExpiration(k string) (string, int64, bool)
	GetWithTTL(k string) (string, int64, bool)
	GetOrSet(k, v string, d int64) (string, bool)
	GetAndSet(k, v string, d int64) (string, bool)
	GetAndRefresh(k string, d int64) (string, bool)
	GetOrCompute(k string, fn func() string, d int64) (string, bool)
	Compute(k string, fn func(old string, loaded bool) (string, bool), d int64) (string, bool)
	GetAndDelete(k string) (string, bool)
	Delete(k string)
	DeleteExpired()
	Range(f func(k, v string) bool)
	RangeNil()
	Items() map[string]string
	Clear()
	Count() int
	DefaultExpiration() int64
	SetDefaultExpiration(d int64)
	SetEvictedCallback(cb func(k, v string))
	HasCallback() bool
	Raw() interface{}
}

// ---- codecs ----

type KeyCodec[K comparable] struct {
	Name string
	Enc  func(s string) K
	Dec  func(k K) string
}

type ValCodec[V any] struct {
	Name string
	Enc  func(s string) V
	Dec  func(v V) string
}

func keyIndex(s string) int {
	// "k12" -> 12 ; "b7" -> 1000007 ; anything else hashed
	if len(s) >= 2 {
		if n, err := strconv.Atoi(s[1:]); err == nil {
			switch s[0] {
			case 'k':
				return n
			case 'b':
				return 1000000 + n
			case 'x':
				return 2000000 + n
			}
		}
	}
	h := 0
	for _, c := range s {
		h = h*131 + int(c)
	}
	return 3000000 + (h & 0xfffff)
}

func keyName(i int) string {
	switch {
	case i >= 2000000 && i < 3000000:
		return "x" + strconv.Itoa(i-2000000)
	case i >= 1000000 && i < 2000000:
		return "b" + strconv.Itoa(i-1000000)
	default:
		return "k" + strconv.Itoa(i)
	}
}

type structKey struct {
	A int32
	B string
	C uint8
}

var (
	stringKeys = KeyCodec[string]{"string", func(s string) string { return s }, func(k string) string { return k }}
	intKeys    = KeyCodec[int]{"int", keyIndex, keyName}
	structKeys = KeyCodec[structKey]{"struct",
		func(s string) structKey {
			i := keyIndex(s)
			return structKey{int32(i), "s" + strconv.Itoa(i%7), uint8(i)}
		},
		func(k structKey) string { return keyName(int(k.A)) }}

	anyVals = ValCodec[any]{"any",
		func(s string) any {
			if s == Nil {
				return nil
			}
			return s
		},
		func(v any) string {
			if v == nil {
				return Nil
			}
			return v.(string)
		}}
	stringVals = ValCodec[string]{"string",
		func(s string) string {
			if s == Nil {
				return ""
			}
			return s
		},
		func(v string) string {
			if v == "" {
				return Nil
			}
			return v
		}}
	intVals = ValCodec[int]{"int",
		func(s string) int {
			if s == Nil {
				return 0
			}
			n, err := strconv.Atoi(s[1:])
			if err != nil {
				panic("bad value id " + s)
			}
			return n
		},
		func(v int) string {
			if v == 0 {
				return Nil
			}
			return "v" + strconv.Itoa(v)
		}}
)

// ---- Map (string keys, interface{} values) ----

type mapAdapter struct{ m cache.Map }

func (a mapAdapter) Raw() interface{} { return a.m }
func (a mapAdapter) Load(k string) (string, bool) {
	v, ok := a.m.Load(k)
	return anyVals.Dec(v), ok
}
func (a mapAdapter) Store(k, v string) { a.m.Store(k, anyVals.Enc(v)) }
func (a mapAdapter) LoadOrStore(k, v string) (string, bool) {
	r, ok := a.m.LoadOrStore(k, anyVals.Enc(v))
	return anyVals.Dec(r), ok
}
func (a mapAdapter) LoadAndStore(k, v string) (string, bool) {
	r, ok := a.m.LoadAndStore(k, anyVals.Enc(v))
	return anyVals.Dec(r), ok
}
func (a mapAdapter) LoadOrCompute(k string, fn func() string) (string, bool) {
	r, ok := a.m.LoadOrCompute(k, func() interface{} { return anyVals.Enc(fn()) })
	return anyVals.Dec(r), ok
}
func (a mapAdapter) Compute(k string, fn func(string, bool) (string, bool)) (string, bool) {
	r, ok := a.m.Compute(k, func(old interface{}, loaded bool) (interface{}, bool) {
		nv, del := fn(anyVals.Dec(old), loaded)
		return anyVals.Enc(nv), del
	})
	return anyVals.Dec(r), ok
}
func (a mapAdapter) LoadAndDelete(k string) (string, bool) {
	r, ok := a.m.LoadAndDelete(k)
	return anyVals.Dec(r), ok
}
func (a mapAdapter) Delete(k string) { a.m.Delete(k) }
func (a mapAdapter) Range(f func(k, v string) bool) {
	a.m.Range(func(k string, v interface{}) bool { return f(k, anyVals.Dec(v)) })
}
func (a mapAdapter) Clear()    { a.m.Clear() }
func (a mapAdapter) Size() int { return a.m.Size() }

// ---- MapOf[K,V] ----

type mapOfAdapter[K comparable, V any] struct {
	m  cache.MapOf[K, V]
	kc KeyCodec[K]
	vc ValCodec[V]
}

func (a mapOfAdapter[K, V]) Raw() interface{} { return a.m }
func (a mapOfAdapter[K, V]) Load(k string) (string, bool) {
	v, ok := a.m.Load(a.kc.Enc(k))
	return a.vc.Dec(v), ok
}
func (a mapOfAdapter[K, V]) Store(k, v string) { a.m.Store(a.kc.Enc(k), a.vc.Enc(v)) }
func (a mapOfAdapter[K, V]) LoadOrStore(k, v string) (string, bool) {
	r, ok := a.m.LoadOrStore(a.kc.Enc(k), a.vc.Enc(v))
	return a.vc.Dec(r), ok
}
func (a mapOfAdapter[K, V]) LoadAndStore(k, v string) (string, bool) {
	r, ok := a.m.LoadAndStore(a.kc.Enc(k), a.vc.Enc(v))
	return a.vc.Dec(r), ok
}
func (a mapOfAdapter[K, V]) LoadOrCompute(k string, fn func() string) (string, bool) {
	r, ok := a.m.LoadOrCompute(a.kc.Enc(k), func() V { return a.vc.Enc(fn()) })
	return a.vc.Dec(r), ok
}
func (a mapOfAdapter[K, V]) Compute(k string, fn func(string, bool) (string, bool)) (string, bool) {
	r, ok := a.m.Compute(a.kc.Enc(k), func(old V, loaded bool) (V, bool) {
		nv, del := fn(a.vc.Dec(old), loaded)
		return a.vc.Enc(nv), del
	})
	return a.vc.Dec(r), ok
}
func (a mapOfAdapter[K, V]) LoadAndDelete(k string) (string, bool) {
	r, ok := a.m.LoadAndDelete(a.kc.Enc(k))
	return a.vc.Dec(r), ok
}
func (a mapOfAdapter[K, V]) Delete(k string) { a.m.Delete(a.kc.Enc(k)) }
func (a mapOfAdapter[K, V]) Range(f func(k, v string) bool) {
	a.m.Range(func(k K, v V) bool { return f(a.kc.Dec(k), a.vc.Dec(v)) })
}
func (a mapOfAdapter[K, V]) Clear()    { a.m.Clear() }
func (a mapOfAdapter[K, V]) Size() int { return a.m.Size() }

// ---- Cache ----

func expToInt(t time.Time) int64 {
	if t.IsZero() {
		return 0
	}
	return t.UnixNano()
}

type cacheAdapter struct {
	c     cache.Cache
	hasCb bool
}

func (a *cacheAdapter) Raw() interface{}         { return a.c }
func (a *cacheAdapter) Set(k, v string, d int64) { a.c.Set(k, anyVals.Enc(v), time.Duration(d)) }
func (a *cacheAdapter) SetDefault(k, v string)   { a.c.SetDefault(k, anyVals.Enc(v)) }
func (a *cacheAdapter) SetForever(k, v string)   { a.c.SetForever(k, anyVals.Enc(v)) }
func (a *cacheAdapter) Get(k string) (string, bool) {
	v, ok := a.c.Get(k)
	return anyVals.Dec(v), ok
}
func (a *cacheAdapter) GetWithExpiration(k string) (string, int64, bool) {
	v, t, ok := a.c.GetWithExpiration(k)
	return anyVals.Dec(v), expToInt(t), ok
}
func (a *cacheAdapter) GetWithTTL(k string) (string, int64, bool) {
	v, d, ok := a.c.GetWithTTL(k)
	return anyVals.Dec(v), int64(d), ok
}
func (a *cacheAdapter) GetOrSet(k, v string, d int64) (string, bool) {
	r, ok := a.c.GetOrSet(k, anyVals.Enc(v), time.Duration(d))
	return anyVals.Dec(r), ok
}
func (a *cacheAdapter) GetAndSet(k, v string, d int64) (string, bool) {
	r, ok := a.c.GetAndSet(k, anyVals.Enc(v), time.Duration(d))
	return anyVals.Dec(r), ok
}
func (a *cacheAdapter) GetAndRefresh(k string, d int64) (string, bool) {
	r, ok := a.c.GetAndRefresh(k, time.Duration(d))
	return anyVals.Dec(r), ok
}
func (a *cacheAdapter) GetOrCompute(k string, fn func() string, d int64) (string, bool) {
	r, ok := a.c.GetOrCompute(k, func() interface{} { return anyVals.Enc(fn()) }, time.Duration(d))
	return anyVals.Dec(r), ok
}
func (a *cacheAdapter) Compute(k string, fn func(string, bool) (string, bool), d int64) (string, bool) {
	r, ok := a.c.Compute(k, func(old interface{}, loaded bool) (interface{}, bool) {
		nv, del := fn(anyVals.Dec(old), loaded)
		return anyVals.Enc(nv), del
	}, time.Duration(d))
	return anyVals.Dec(r), ok
}
func (a *cacheAdapter) GetAndDelete(k string) (string, bool) {
	r, ok := a.c.GetAndDelete(k)
	return anyVals.Dec(r), ok
}
func (a *cacheAdapter) Delete(k string) { a.c.Delete(k) }
func (a *cacheAdapter) DeleteExpired()  { a.c.DeleteExpired() }
func (a *cacheAdapter) Range(f func(k, v string) bool) {
	a.c.Range(func(k string, v interface{}) bool { return f(k, anyVals.Dec(v)) })
}
func (a *cacheAdapter) RangeNil() { a.c.Range(nil) }
func (a *cacheAdapter) Items() map[string]string {
	r := map[string]string{}
	for k, v := range a.c.Items() {
		r[k] = anyVals.Dec(v)
	}
	return r
}
func (a *cacheAdapter) Clear()                       { a.c.Clear() }
func (a *cacheAdapter) Count() int                   { return a.c.Count() }
func (a *cacheAdapter) DefaultExpiration() int64     { return int64(a.c.DefaultExpiration()) }
func (a *cacheAdapter) SetDefaultExpiration(d int64) { a.c.SetDefaultExpiration(time.Duration(d)) }
func (a *cacheAdapter) SetEvictedCallback(cb func(k, v string)) {
	if cb == nil {
		a.hasCb = false
		a.c.SetEvictedCallback(nil)
		return
	}
	a.hasCb = true
	a.c.SetEvictedCallback(func(k string, v interface{}) { cb(k, anyVals.Dec(v)) })
}
func (a *cacheAdapter) HasCallback() bool { return a.c.EvictedCallback() != nil }

// ---- CacheOf[K,V] ----

type cacheOfAdapter[K comparable, V any] struct {
	c  cache.CacheOf[K, V]
	kc KeyCodec[K]
	vc ValCodec[V]
}

func (a *cacheOfAdapter[K, V]) Raw() interface{} { return a.c }
func (a *cacheOfAdapter[K, V]) Set(k, v string, d int64) {
	a.c.Set(a.kc.Enc(k), a.vc.Enc(v), time.Duration(d))
}
func (a *cacheOfAdapter[K, V]) SetDefault(k, v string) { a.c.SetDefault(a.kc.Enc(k), a.vc.Enc(v)) }
func (a *cacheOfAdapter[K, V]) SetForever(k, v string) { a.c.SetForever(a.kc.Enc(k), a.vc.Enc(v)) }
func (a *cacheOfAdapter[K, V]) Get(k string) (string, bool) {
	v, ok := a.c.Get(a.kc.Enc(k))
	return a.vc.Dec(v), ok
}
func (a *cacheOfAdapter[K, V]) GetWithExpiration(k string) (string, int64, bool) {
	v, t, ok := a.c.GetWithExpiration(a.kc.Enc(k))
	return a.vc.Dec(v), expToInt(t), ok
}
func (a *cacheOfAdapter[K, V]) GetWithTTL(k string) (string, int64, bool) {
	v, d, ok := a.c.GetWithTTL(a.kc.Enc(k))
	return a.vc.Dec(v), int64(d), ok
}
func (a *cacheOfAdapter[K, V]) GetOrSet(k, v string, d int64) (string, bool) {
	r, ok := a.c.GetOrSet(a.kc.Enc(k), a.vc.Enc(v), time.Duration(d))
	return a.vc.Dec(r), ok
}
func (a *cacheOfAdapter[K, V]) GetAndSet(k, v string, d int64) (string, bool) {
	r, ok := a.c.GetAndSet(a.kc.Enc(k), a.vc.Enc(v), time.Duration(d))
	return a.vc.Dec(r), ok
}
func (a *cacheOfAdapter[K, V]) GetAndRefresh(k string, d int64) (string, bool) {
	r, ok := a.c.GetAndRefresh(a.kc.Enc(k), time.Duration(d))
	return a.vc.Dec(r), ok
}
func (a *cacheOfAdapter[K, V]) GetOrCompute(k string, fn func() string, d int64) (string, bool) {
	r, ok := a.c.GetOrCompute(a.kc.Enc(k), func() V { return a.vc.Enc(fn()) }, time.Duration(d))
	return a.vc.Dec(r), ok
}
func (a *cacheOfAdapter[K, V]) Compute(k string, fn func(string, bool) (string, bool), d int64) (string, bool) {
	r, ok := a.c.Compute(a.kc.Enc(k), func(old V, loaded bool) (V, bool) {
		nv, del := fn(a.vc.Dec(old), loaded)
		return a.vc.Enc(nv), del
	}, time.Duration(d))
	return a.vc.Dec(r), ok
}
func (a *cacheOfAdapter[K, V]) GetAndDelete(k string) (string, bool) {
	r, ok := a.c.GetAndDelete(a.kc.Enc(k))
	return a.vc.Dec(r), ok
}
func (a *cacheOfAdapter[K, V]) Delete(k string) { a.c.Delete(a.kc.Enc(k)) }
func (a *cacheOfAdapter[K, V]) DeleteExpired()  { a.c.DeleteExpired() }
func (a *cacheOfAdapter[K, V]) Range(f func(k, v string) bool) {
	a.c.Range(func(k K, v V) bool { return f(a.kc.Dec(k), a.vc.Dec(v)) })
}
func (a *cacheOfAdapter[K, V]) RangeNil() { a.c.Range(nil) }
func (a *cacheOfAdapter[K, V]) Items() map[string]string {
	r := map[string]string{}
	for k, v := range a.c.Items() {
		r[a.kc.Dec(k)] = a.vc.Dec(v)
	}
	return r
}
func (a *cacheOfAdapter[K, V]) Clear()                   { a.c.Clear() }
func (a *cacheOfAdapter[K, V]) Count() int               { return a.c.Count() }
func (a *cacheOfAdapter[K, V]) DefaultExpiration() int64 { return int64(a.c.DefaultExpiration()) }
func (a *cacheOfAdapter[K, V]) SetDefaultExpiration(d int64) {
	a.c.SetDefaultExpiration(time.Duration(d))
}
func (a *cacheOfAdapter[K, V]) SetEvictedCallback(cb func(k, v string)) {
	if cb == nil {
		a.c.SetEvictedCallback(nil)
		return
	}
	a.c.SetEvictedCallback(func(k K, v V) { cb(a.kc.Dec(k), a.vc.Dec(v)) })
}
func (a *cacheOfAdapter[K, V]) HasCallback() bool { return a.c.EvictedCallback() != nil }

// ---- construction ----

// CacheCfg selects a constructor variant and its arguments. Pointer fields
// that are nil are not passed (New: option omitted).
type CacheCfg struct {
	Kind     string `json:"kind"`    // Cache | CacheOf
	KeyType  string `json:"keytype"` // string | int | struct (CacheOf only)
	ValType  string `json:"valtype"` // any | string | int
	Ctor     string `json:"ctor"`    // New | NewDefault | NewConfigless
	HasDef   bool   `json:"hasdef"`
	Def      int64  `json:"def"`
	HasIntv  bool   `json:"hasintv"`
	Interval int64  `json:"interval"`
	HasCap   bool   `json:"hascap"`
	MinCap   int    `json:"mincap"`
	Cb       string `json:"cb"` // "" = none
}

func newCache(cfg CacheCfg, cb func(k, v string)) CacheAPI {
	switch cfg.Kind {
	case "Cache":
		var ecb cache.EvictedCallback
		if cb != nil {
			ecb = func(k string, v interface{}) { cb(k, anyVals.Dec(v)) }
		}
		switch cfg.Ctor {
		case "NewDefault":
			if ecb != nil {
				return &cacheAdapter{c: cache.NewDefault(time.Duration(cfg.Def), time.Duration(cfg.Interval), ecb)}
			}
			return &cacheAdapter{c: cache.NewDefault(time.Duration(cfg.Def), time.Duration(cfg.Interval))}
		default:
			var opts []cache.Option
			if cfg.HasDef {
				opts = append(opts, cache.WithDefaultExpiration(time.Duration(cfg.Def)))
			}
			if cfg.HasIntv {
				opts = append(opts, cache.WithCleanupInterval(time.Duration(cfg.Interval)))
			}
			if cfg.HasCap {
				opts = append(opts, cache.WithMinCapacity(cfg.MinCap))
			}
			if ecb != nil {
				opts = append(opts, cache.WithEvictedCallback(ecb))
			}
			return &cacheAdapter{c: cache.New(opts...)}
		}
	case "CacheOf":
		if strings.HasPrefix(cfg.KeyType, "cat:") {
			return newCatalogueCache(cfg, cb)
		}
		switch cfg.KeyType + "/" + cfg.ValType {
		case "string/any", "/", "string/", "/any":
			return newCacheOf(cfg, cb, stringKeys, anyVals)
		case "int/int":
			return newCacheOf(cfg, cb, intKeys, intVals)
		case "int/string":
			return newCacheOf(cfg, cb, intKeys, stringVals)
		case "struct/string":
			return newCacheOf(cfg, cb, structKeys, stringVals)
		case "string/string":
			return newCacheOf(cfg, cb, stringKeys, stringVals)
		}
	}
	panic(fmt.Sprintf("newCache: unsupported %+v", cfg))
}

func newCacheOf[K comparable, V any](cfg CacheCfg, cb func(k, v string), kc KeyCodec[K], vc ValCodec[V]) CacheAPI {
	var ecb cache.EvictedCallbackOf[K, V]
	if cb != nil {
		ecb = func(k K, v V) { cb(kc.Dec(k), vc.Dec(v)) }
	}
	var c cache.CacheOf[K, V]
	defer func() { pinCacheOf(c, kc) }()
	switch cfg.Ctor {
	case "NewDefault":
		if ecb != nil {
			c = cache.NewOfDefault[K, V](time.Duration(cfg.Def), time.Duration(cfg.Interval), ecb)
		} else {
			c = cache.NewOfDefault[K, V](time.Duration(cfg.Def), time.Duration(cfg.Interval))
		}
		return &cacheOfAdapter[K, V]{c: c, kc: kc, vc: vc}
	default:
		var opts []cache.OptionOf[K, V]
		if cfg.HasDef {
			opts = append(opts, cache.WithDefaultExpirationOf[K, V](time.Duration(cfg.Def)))
		}
		if cfg.HasIntv {
			opts = append(opts, cache.WithCleanupIntervalOf[K, V](time.Duration(cfg.Interval)))
		}
		if cfg.HasCap {
			opts = append(opts, cache.WithMinCapacityOf[K, V](cfg.MinCap))
		}
		if ecb != nil {
			opts = append(opts, cache.WithEvictedCallbackOf[K, V](ecb))
		}
		c = cache.NewOf[K, V](opts...)
		return &cacheOfAdapter[K, V]{c: c, kc: kc, vc: vc}
	}
}

// MapCfg selects a map constructor.
type MapCfg struct {
	Kind    string `json:"kind"`    // Map | MapOf
	KeyType string `json:"keytype"` // string | int | struct
	ValType string `json:"valtype"`
	HasHint bool   `json:"hashint"`
	Hint    int    `json:"hint"`
}

func newMap(cfg MapCfg) MapAPI {
	switch cfg.Kind {
	case "Map":
		if cfg.HasHint {
			return mapAdapter{cache.NewMapPresized(cfg.Hint)}
		}
		return mapAdapter{cache.NewMap()}
	case "MapOf":
		if strings.HasPrefix(cfg.KeyType, "cat:") {
			return newCatalogueMap(cfg)
		}
		switch cfg.KeyType + "/" + cfg.ValType {
		case "string/any", "/", "string/", "/any":
			return newMapOf(cfg, stringKeys, anyVals)
		case "int/int":
			return newMapOf(cfg, intKeys, intVals)
		case "int/string":
			return newMapOf(cfg, intKeys, stringVals)
		case "struct/string":
			return newMapOf(cfg, structKeys, stringVals)
		case "string/string":
			return newMapOf(cfg, stringKeys, stringVals)
		}
	}
	panic(fmt.Sprintf("newMap: unsupported %+v", cfg))
}

func newMapOf[K comparable, V any](cfg MapCfg, kc KeyCodec[K], vc ValCodec[V]) MapAPI {
	var m cache.MapOf[K, V]
	if cfg.HasHint {
		m = cache.NewMapOfPresized[K, V](cfg.Hint)
	} else {
		m = cache.NewMapOf[K, V]()
	}
	pinMapOf(m, kc)
	return mapOfAdapter[K, V]{m, kc, vc}
}

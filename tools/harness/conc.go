package main

import (
	"crypto/sha1"
	"encoding/hex"
	"encoding/json"
	"fmt"
	"math/rand"
	"sort"
	"strconv"
	"strings"

	"github.com/fufuok/cache/zzverif/vsched"
	"github.com/fufuok/cache/zzverif/vtime"
)

// Scenario is one concurrent scenario: a fresh container, a sequential
// preload, N virtual threads with fixed call lists, and a strategy that
// decides which interleavings are executed.
type Scenario struct {
	Name     string    `json:"name"`
	Cache    *CacheCfg `json:"cache,omitempty"`
	Map      *MapCfg   `json:"map,omitempty"`
	Unit     int64     `json:"unit"`
	Pin      *Pin      `json:"pin,omitempty"`
	Preload  []SeqOp   `json:"preload"`
	Threads  [][]SeqOp `json:"threads"`
	Final    []string  `json:"final"`
	Strategy Strategy  `json:"strategy"`
	Budget   int       `json:"budget"`
	StepLog  bool      `json:"steplog"` // record every synchronisation step and the table projection after the preload (CLHT conformance)
}

type Strategy struct {
	Kind      string `json:"kind"`      // dfs | pct | random | replay | solo
	StoreOnly bool   `json:"storeonly"` // dfs: preempt only before store-type operations
	Rotate    bool   `json:"rotate"`    // dfs: split the budget over the rotations of the thread priority order
	Reduce    bool   `json:"reduce"`    // dfs: no preemption before operations on addresses only one thread touched
	Bound     int    `json:"bound"`
	Depth     int    `json:"depth"`
	Runs      int    `json:"runs"`
	Max       int    `json:"max"`
	Seed      int64  `json:"seed"`
	Choices   []int  `json:"choices"`
	Writer    int    `json:"writer"`
	Reader    int    `json:"reader"`
	ParkAt    int    `json:"parkat"` // solo replay: park the writer after this many of its steps (-1 = enumerate all)
	OwnMax    int    `json:"ownmax"` // solo: reader's own-step budget
}

// Rec records the API-level history of one run. Exactly one goroutine runs at
// a time under the scheduler, so the append order is a valid real-time order.
type Rec struct {
	evs []*Event
}

func (r *Rec) add(e *Event) { e.norm(); r.evs = append(r.evs, e) }

// freshVal makes a value id for writes issued by visitors / callbacks (valid for every value codec: "v<number>").
var freshCtr int

func freshVal() string {
	freshCtr++
	return "v" + strconv.Itoa(800000+freshCtr)
}

func curThread() int {
	if t := vsched.Cur(); t >= 0 {
		return t + 1
	}
	return 0
}

type runner struct {
	sc   *Scenario
	rec  *Rec
	m    MapAPI
	c    CacheAPI
	unit int64
}

func (rn *runner) cbFor(id string) func(k, v string) {
	return func(k, v string) {
		if len(k) > 1 && k[0] == 'b' {
			if _, err := strconv.Atoi(k[1:]); err == nil {
				return // ballast entries are handled through aggregated Bulk* observations only
			}
		}
		t := curThread()
		rn.rec.add(&Event{Ev: "evict", T: t, Cb: id, K: k, V: v})
		// re-entrant callbacks call back into the cache (C06, C13)
		switch id {
		case "cbGet":
			rn.call(t, SeqOp{Op: "Get", K: k})
		case "cbSet":
			rn.call(t, SeqOp{Op: "Set", K: k, V: freshVal(), D: 0})
		case "cbDel":
			rn.call(t, SeqOp{Op: "Delete", K: k})
		case "cbCount":
			rn.call(t, SeqOp{Op: "Count"})
		}
	}
}

// mutating / stopping visitors for Range (C07, C13). The visit is recorded,
// then the nested call (if any) is executed by the same thread.
func (rn *runner) visitorFor(t int, name string, arg SeqOp, nvis *int, balSeen map[string]bool, balCount *int) func(k, v string) bool {
	stop := -1
	if strings.HasPrefix(name, "stop:") {
		stop, _ = strconv.Atoi(name[5:])
	}
	fired := false
	return func(k, v string) bool {
		*nvis++
		if len(k) > 1 && k[0] == 'b' {
			if i, err := strconv.Atoi(k[1:]); err == nil && v == balVal(i) && !balSeen[k] {
				balSeen[k] = true
				*balCount++
				return !(stop > 0 && *nvis >= stop)
			}
		}
		rn.rec.add(&Event{Ev: "visit", T: t, K: k, V: v})
		switch name {
		case "del": // delete the visited key
			rn.call(t, SeqOp{Op: rn.delOp(), K: k})
		case "upd": // overwrite the visited key
			rn.call(t, SeqOp{Op: rn.storeOp(), K: k, V: freshVal()})
		case "ins": // insert another key once
			if !fired {
				fired = true
				rn.call(t, SeqOp{Op: rn.storeOp(), K: arg.K, V: arg.V})
			}
		case "delother": // delete another key once
			if !fired {
				fired = true
				rn.call(t, SeqOp{Op: rn.delOp(), K: arg.K})
			}
		case "clear":
			if !fired {
				fired = true
				rn.call(t, SeqOp{Op: "Clear"})
			}
		case "load":
			rn.call(t, SeqOp{Op: rn.loadOp(), K: k})
		}
		return !(stop > 0 && *nvis >= stop)
	}
}

func (rn *runner) container() interface{} {
	if rn.m != nil {
		return rn.m
	}
	return rn.c
}

func (rn *runner) delOp() string {
	return "Delete"
}
func (rn *runner) storeOp() string {
	if rn.c != nil {
		return "Set"
	}
	return "Store"
}
func (rn *runner) loadOp() string {
	if rn.c != nil {
		return "Get"
	}
	return "Load"
}

// call executes one API call on behalf of thread t and records call / ret.
func (rn *runner) call(t int, op SeqOp) {
	ce := &Event{Ev: "call", T: t, Op: op.Op, K: op.K, V: op.V, D: op.D, Fn: op.Fn, Lo: op.Lo, Hi: op.Hi, Rv: Nil}
	rn.rec.add(ce)
	e := &Event{Ev: "ret", T: t, Op: op.Op, K: op.K, Rv: Nil, Fo: Nil}
	if rn.m != nil {
		rn.mapCall(t, op, e)
	} else {
		rn.cacheCall(t, op, e)
	}
	rn.rec.add(e)
}

func (rn *runner) mapCall(t int, op SeqOp, e *Event) {
	m := rn.m
	switch op.Op {
	case "Range":
		nvis := 0
		seen := map[string]bool{}
		m.Range(rn.visitorFor(t, op.Fn, op, &nvis, seen, &e.N))
		e.X = int64(nvis)
	default:
		runMapOp(m, op, e)
	}
}

func (rn *runner) cacheCall(t int, op SeqOp, e *Event) {
	c := rn.c
	unit := rn.unit
	d := op.D * unit
	switch op.Op {
	case "Tick":
		vtime.Advance(d)
	case "Set":
		c.Set(op.K, op.V, d)
	case "SetDefault":
		c.SetDefault(op.K, op.V)
	case "SetForever":
		c.SetForever(op.K, op.V)
	case "Get":
		e.Rv, e.Ok = c.Get(op.K)
	case "GetWithExpiration":
		var x int64
		e.Rv, x, e.Ok = c.GetWithExpiration(op.K)
		e.X = x / unit
	case "GetWithTTL":
		var x int64
		e.Rv, x, e.Ok = c.GetWithTTL(op.K)
		e.X = x / unit
	case "GetOrSet":
		e.Rv, e.Ok = c.GetOrSet(op.K, op.V, d)
	case "GetAndSet":
		e.Rv, e.Ok = c.GetAndSet(op.K, op.V, d)
	case "GetAndRefresh":
		e.Rv, e.Ok = c.GetAndRefresh(op.K, d)
	case "GetOrCompute":
		e.Rv, e.Ok = c.GetOrCompute(op.K, func() string { e.N++; userYield(); return op.V }, d)
	case "Compute":
		e.Rv, e.Ok = c.Compute(op.K, computeFn(op.Fn, op.V, &e.N, &e.Fo, &e.Fl), d)
	case "GetAndDelete":
		e.Rv, e.Ok = c.GetAndDelete(op.K)
	case "Delete":
		c.Delete(op.K)
	case "DeleteExpired":
		c.DeleteExpired()
	case "Range":
		nvis := 0
		seen := map[string]bool{}
		c.Range(rn.visitorFor(t, op.Fn, op, &nvis, seen, &e.N))
		e.X = int64(nvis)
	case "Items":
		e.Vis = sortedKV(c.Items())
	case "Clear":
		c.Clear()
	case "Count":
		e.X = int64(c.Count())
	case "DefaultExpiration":
		e.X = c.DefaultExpiration() / unit
	case "SetDefaultExpiration":
		c.SetDefaultExpiration(d)
	case "SetEvictedCallback":
		if op.Fn == "" || op.Fn == "nil" {
			c.SetEvictedCallback(nil)
		} else {
			c.SetEvictedCallback(rn.cbFor(op.Fn))
		}
	case "BulkStore":
		for i := op.Lo; i <= op.Hi; i++ {
			c.SetForever(balKey(i), balVal(i))
		}
	case "BulkDelete":
		for i := op.Lo; i <= op.Hi; i++ {
			if v, ok := c.GetAndDelete(balKey(i)); ok {
				e.N++
				if v == balVal(i) {
					e.X++
				}
			}
		}
	case "BulkLoad":
		for i := op.Lo; i <= op.Hi; i++ {
			if v, ok := c.Get(balKey(i)); ok {
				e.N++
				if v == balVal(i) {
					e.X++
				}
			}
		}
	default:
		die("unknown cache op %q", op.Op)
	}
}

// setup builds the container and runs the preload (outside the scheduler).
func (rn *runner) setup() *Event {
	sc := rn.sc
	rn.unit = sc.Unit
	if rn.unit == 0 {
		rn.unit = 1
	}
	applyPin(sc.Pin)
	hdr := &Event{Ev: "reset", Note: sc.Name, Unit: rn.unit, N: len(sc.Threads)}
	if sc.Cache != nil {
		vtime.ResetTimers()
		vtime.Set(1000 * rn.unit)
		cfg := *sc.Cache
		cfg.Def *= rn.unit
		cfg.Interval *= rn.unit
		var cb func(k, v string)
		if cfg.Cb != "" {
			cb = rn.cbFor(cfg.Cb)
		}
		rn.c = newCache(cfg, cb)
		hdr.Kind, hdr.KeyType, hdr.Ctor, hdr.Cb = cfg.Kind, cfg.KeyType, cfg.Ctor, cfg.Cb
		hdr.HasDef, hdr.Def = cfg.HasDef || cfg.Ctor == "NewDefault", sc.Cache.Def
		hdr.NoExp, hdr.DefExp = int64(noExpiration)/rn.unit, int64(defaultExpiration)/rn.unit
		hdr.X = rn.c.DefaultExpiration() / rn.unit
	} else {
		rn.m = newMap(*sc.Map)
		hdr.Kind, hdr.KeyType = sc.Map.Kind, sc.Map.KeyType
	}
	hdr.Now = vtime.VNow() / rn.unit
	return hdr
}

// runOnce executes the scenario once under pick and returns the history.
func runOnce(sc *Scenario, pick vsched.Picker, keepLog bool, before func(r *vsched.Run)) (*Rec, *vsched.Run) {
	rn := &runner{sc: sc, rec: &Rec{}}
	freshCtr = 0
	hdr := rn.setup()
	defer clearPin()
	// the evicted callback closes over the runner, which holds the cache: a cycle through an object with a finalizer (the
	// cache wrapper) is never collected, so every run would leak its cache. Drop the callback when the run is over.
	defer func() {
		if rn.c != nil {
			rn.c.SetEvictedCallback(nil)
		}
	}()
	rn.rec.add(hdr)
	for _, op := range sc.Preload {
		rn.call(0, op)
	}
	if sc.StepLog {
		if tb, ok := tableOf(rn.container(), true); ok {
			b, _ := json.Marshal(tb)
			rn.rec.add(&Event{Ev: "init", Note: string(b)})
		}
		rec := rn.rec
		vsched.StepHook = func(t int, op vsched.Op, ok bool) {
			if op.Kind == vsched.KGosched || op.Kind == vsched.KUser || op.Kind == vsched.KStart {
				return
			}
			rec.add(&Event{Ev: "step", T: t + 1, Op: op.Kind.String(), Fn: vsched.SiteOf(op.PC), K: vsched.FuncOf(op.PC2), Ok: ok})
		}
		defer func() { vsched.StepHook = nil }()
	}
	if rn.c != nil {
		// the clock is frozen during the concurrent phase; its value is part of the history
		rn.rec.add(&Event{Ev: "phase", Now: vtime.VNow() / rn.unit})
	} else {
		rn.rec.add(&Event{Ev: "phase"})
	}
	fns := make([]func(), len(sc.Threads))
	for i := range sc.Threads {
		i := i
		fns[i] = func() {
			for _, op := range sc.Threads[i] {
				rn.call(i+1, op)
			}
		}
	}
	budget := sc.Budget
	if budget == 0 {
		budget = 200000
	}
	run := vsched.ExecuteParked(fns, pick, budget, keepLog, before)
	end := &Event{Ev: "end", Note: run.Outcome, N: run.NSteps}
	if keepLog {
		var sb strings.Builder
		for i, st := range run.Steps {
			if i > 0 {
				sb.WriteByte(',')
			}
			sb.WriteString(strconv.Itoa(st.T))
		}
		end.Fn = sb.String()
	}
	if run.Outcome == vsched.Panicked {
		end.Note = "panic: " + fmt.Sprint(run.PanicVal)
	}
	if run.Outcome != vsched.OK {
		rn.rec.add(end)
		return rn.rec, run
	}
	// quiescent observations (C08, C03/C04 "quiescent Load of every key")
	q := &Event{Ev: "quiesce"}
	if rn.m != nil {
		q.X = int64(rn.m.Size())
		seen := map[string]bool{}
		rn.m.Range(func(k, v string) bool {
			if len(k) > 1 && k[0] == 'b' {
				if i, err := strconv.Atoi(k[1:]); err == nil && v == balVal(i) && !seen[k] {
					seen[k] = true
					q.N++
					return true
				}
			}
			q.Vis = append(q.Vis, KV{K: k, V: v})
			return true
		})
	} else {
		q.X = int64(rn.c.Count())
		phys, ok := physOf(rn.c, rn.unit)
		q.HasPhys = ok
		for _, p := range phys {
			if len(p.K) > 1 && p.K[0] == 'b' {
				q.N++
			} else {
				q.Phys = append(q.Phys, p)
			}
		}
		q.C1 = len(phys)
		q.Now = vtime.VNow() / rn.unit
	}
	sort.Slice(q.Vis, func(i, j int) bool { return q.Vis[i].K < q.Vis[j].K })
	rn.rec.add(q)
	for _, k := range sc.Final {
		rn.call(0, SeqOp{Op: rn.loadOp(), K: k})
	}
	rn.rec.add(end)
	return rn.rec, run
}

func histKey(evs []*Event) string {
	h := sha1.New()
	enc := json.NewEncoder(h)
	for _, e := range evs {
		if e.Ev == "step" || e.Ev == "init" {
			continue
		}
		if e.Ev == "end" {
			c := *e
			c.Fn, c.N = "", 0 // the schedule is not part of the history
			enc.Encode(&c)
			continue
		}
		enc.Encode(e)
	}
	return hex.EncodeToString(h.Sum(nil))
}

type ConcStats struct {
	Scenario   string         `json:"scenario"`
	Runs       int            `json:"runs"`
	Distinct   int            `json:"distinct"`
	Outcomes   map[string]int `json:"outcomes"`
	MaxSteps   int            `json:"max_steps"`
	Exhausted  bool           `json:"exhausted"` // dfs enumerated the whole bounded space
	Bad        []BadRun       `json:"bad"`
	ParkPoints int            `json:"park_points"`
}

type BadRun struct {
	Outcome string   `json:"outcome"`
	Choices []int    `json:"choices"`
	Stuck   []int    `json:"stuck"`
	Pending []string `json:"pending"`
	ParkAt  int      `json:"parkat"`
	Trace   int      `json:"trace"`
	Tail    []string `json:"tail"`
	Panic   string   `json:"panic"`
}

func tailOf(run *vsched.Run) []string {
	var r []string
	n := len(run.Steps)
	for i := n - 16; i < n; i++ {
		if i >= 0 {
			s := run.Steps[i]
			r = append(r, fmt.Sprintf("t%d:%s@%s en=%v", s.T+1, s.Op.Kind, vsched.SiteOf(s.Op.PC), s.Enabled))
		}
	}
	return r
}

func panicOf(run *vsched.Run) string {
	if run.PanicVal == nil {
		return ""
	}
	return fmt.Sprint(run.PanicVal)
}

func choicesOf(run *vsched.Run) []int {
	c := make([]int, len(run.Steps))
	for i, s := range run.Steps {
		c[i] = s.T
	}
	return c
}

func pendingOf(run *vsched.Run) []string {
	var r []string
	for _, t := range run.Threads {
		if !t.Done {
			r = append(r, fmt.Sprintf("t%d:%s@%s", t.ID+1, t.Pending.Kind, vsched.SiteOf(t.Pending.PC)))
		}
	}
	return r
}

// runScenario executes sc under its strategy, writes every distinct history
// to tw (as its own trace) and returns statistics.
func runScenario(sc *Scenario, tw *TraceWriter, trBase *int) *ConcStats {
	st := &ConcStats{Scenario: sc.Name, Outcomes: map[string]int{}}
	seen := map[string]bool{}
	emit := func(rec *Rec, run *vsched.Run, parkAt int) {
		st.Runs++
		st.Outcomes[run.Outcome]++
		if run.NSteps > st.MaxSteps {
			st.MaxSteps = run.NSteps
		}
		k := histKey(rec.evs)
		isNew := !seen[k]
		if isNew {
			seen[k] = true
			st.Distinct++
			*trBase++
			for _, e := range rec.evs {
				e.Tr = *trBase
				tw.Write(e)
			}
		}
		if run.Outcome != vsched.OK && len(st.Bad) < 5 {
			st.Bad = append(st.Bad, BadRun{Outcome: run.Outcome, Choices: choicesOf(run), Stuck: run.Stuck, Pending: pendingOf(run), ParkAt: parkAt, Trace: *trBase, Tail: tailOf(run), Panic: panicOf(run)})
		}
	}
	s := sc.Strategy
	vsched.WantSites = true
	switch s.Kind {
	case "dfs":
		max := s.Max
		if max == 0 {
			max = 100000
		}
		n := len(sc.Threads)
		rots := 1
		if s.Rotate {
			rots = n
		}
		exhausted := true
		for rot := 0; rot < rots; rot++ {
			d := vsched.NewDFS(s.Bound)
			d.StoreOnly = s.StoreOnly
			d.Reduce = s.Reduce
			for i := 0; i < n; i++ {
				d.Perm = append(d.Perm, (i+rot)%n)
			}
			budget := st.Runs + max/rots
			for {
				rec, run := runOnce(sc, d.Picker(), true, nil)
				emit(rec, run, -1)
				if !d.Next() {
					break
				}
				if st.Runs >= budget {
					exhausted = false
					break
				}
			}
		}
		st.Exhausted = exhausted
	case "pct", "random":
		rng := rand.New(rand.NewSource(s.Seed))
		est := 50
		for i := 0; i < s.Runs; i++ {
			var pick vsched.Picker
			if s.Kind == "pct" {
				pick = vsched.PCTPicker(rng, len(sc.Threads), s.Depth, est)
			} else {
				pick = vsched.RandomPicker(rng)
			}
			rec, run := runOnce(sc, pick, true, nil)
			if run.NSteps > est {
				est = run.NSteps
			}
			emit(rec, run, -1)
		}
	case "replay":
		mis := 0
		rec, run := runOnce(sc, vsched.ReplayPicker(s.Choices, &mis), true, nil)
		emit(rec, run, -1)
	case "solo":
		soloRuns(sc, emit, st)
	default:
		die("unknown strategy %q", s.Kind)
	}
	return st
}

// soloRuns: C16. The writer thread is parked after each possible number of
// its own steps; the reader thread then runs alone and must finish within its
// own-step budget; afterwards everybody is released so that the history is
// complete.
func soloRuns(sc *Scenario, emit func(*Rec, *vsched.Run, int), st *ConcStats) {
	s := sc.Strategy
	w, r := s.Writer-1, s.Reader-1
	ownMax := s.OwnMax
	if ownMax == 0 {
		ownMax = 200
	}
	one := func(parkAt int) (done bool) {
		phase := 0
		blocked := false
		before := func(run *vsched.Run) {
			wt, rt := run.Threads[w], run.Threads[r]
			switch phase {
			case 0: // writer alone until it has taken parkAt steps
				for _, t := range run.Threads {
					t.Parked = t != wt
				}
				if wt.Steps >= parkAt || wt.Done {
					if wt.Done {
						done = true
					}
					phase = 1
					for _, t := range run.Threads {
						t.Parked = t != rt
					}
				}
			case 1: // reader alone
				if rt.Done {
					phase = 2
					for _, t := range run.Threads {
						t.Parked = false
					}
				} else if rt.Steps > ownMax {
					blocked = true
					phase = 2
					for _, t := range run.Threads {
						t.Parked = false
					}
				}
			}
		}
		pick := func(run *vsched.Run, en []int) int {
			if blocked {
				return en[0]
			}
			return en[0]
		}
		rec, run := runOnce(sc, pick, true, before)
		if blocked {
			run.Outcome = "reader-budget"
		}
		if run.Outcome == vsched.Deadlock && phase == 1 {
			run.Outcome = "reader-blocked"
		}
		emit(rec, run, parkAt)
		return done
	}
	if s.ParkAt >= 0 && s.Kind == "solo" && s.Runs == 1 {
		one(s.ParkAt)
		return
	}
	for i := 0; i < 5000; i++ {
		st.ParkPoints++
		if one(i) {
			break
		}
	}
}

func dispatchConc(in, out, stats string) {
	var scs []Scenario
	readJSON(in, &scs)
	tw := NewTraceWriter(out)
	var all []*ConcStats
	tr := 0
	for i := range scs {
		all = append(all, runScenario(&scs[i], tw, &tr))
	}
	tw.Close()
	if stats != "" {
		writeJSON(stats, all)
	}
}

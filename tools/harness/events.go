package main

import (
	"bufio"
	"encoding/json"
	"os"
)

// Event is one line of an ndjson trace. Every field is always present so that
// TLC can access any field of any record.
type Event struct {
	Ev  string `json:"ev"` // reset | op | tick | call | ret | visit | evict | quiesce
	Tr  int    `json:"tr"` // trace id within the file
	T   int    `json:"t"`  // thread
	Op  string `json:"op"`
	K   string `json:"k"`
	V   string `json:"v"`
	D   int64  `json:"d"`
	Fn  string `json:"fn"`
	Rv  string `json:"rv"`
	Ok  bool   `json:"ok"`
	X   int64  `json:"x"`
	N   int    `json:"n"`  // user function invocations during the call
	Fo  string `json:"fo"` // old value handed to the user function
	Fl  bool   `json:"fl"` // loaded flag handed to the user function
	C0  int    `json:"c0"` // Count/Size before the call
	C1  int    `json:"c1"` // Count/Size after the call
	Now int64  `json:"now"`
	Ft  int64  `json:"ft"` // clock advance made by the user function during the call (sequential cache programs)
	Cb  string `json:"cb"`
	Lo  int    `json:"lo"` // aggregated ballast calls: key range b<lo>..b<hi>
	Hi  int    `json:"hi"`
	// evictions fired during the call: {cb,k,v}; visits: {k,v}
	Evs []KV `json:"evs"`
	Vis []KV `json:"vis"`
	// physical content after the call (access file), sorted by key
	HasPhys bool   `json:"hasphys"`
	Phys    []Phys `json:"phys"`
	Note    string `json:"note"`
	// reset header only
	Kind    string `json:"kind,omitempty"`
	KeyType string `json:"keytype,omitempty"`
	Ctor    string `json:"ctor,omitempty"`
	HasDef  bool   `json:"hasdef,omitempty"`
	Def     int64  `json:"def,omitempty"`
	HasIntv bool   `json:"hasintv,omitempty"`
	Intv    int64  `json:"intv,omitempty"`
	NoExp   int64  `json:"noexp,omitempty"`
	DefExp  int64  `json:"defexp,omitempty"`
	Unit    int64  `json:"unit,omitempty"`
}

// header fields are always written for reset events
type resetEvent struct {
	Ev      string `json:"ev"`
	Tr      int    `json:"tr"`
	Kind    string `json:"kind"`
	KeyType string `json:"keytype"`
	Ctor    string `json:"ctor"`
	HasDef  bool   `json:"hasdef"`
	Def     int64  `json:"def"`
	HasIntv bool   `json:"hasintv"`
	Intv    int64  `json:"intv"`
	NoExp   int64  `json:"noexp"`
	DefExp  int64  `json:"defexp"`
	Unit    int64  `json:"unit"`
	Cb      string `json:"cb"`
	Now     int64  `json:"now"`
	X       int64  `json:"x"`
	C1      int    `json:"c1"`
	N       int    `json:"n"`
	Note    string `json:"note"`
}

type KV struct {
	Cb string `json:"cb"`
	K  string `json:"k"`
	V  string `json:"v"`
}

type Phys struct {
	K string `json:"k"`
	V string `json:"v"`
	E int64  `json:"e"`
}

func (e *Event) norm() {
	if e.Evs == nil {
		e.Evs = []KV{}
	}
	if e.Vis == nil {
		e.Vis = []KV{}
	}
	if e.Phys == nil {
		e.Phys = []Phys{}
	}
}

type TraceWriter struct {
	f *os.File
	w *bufio.Writer
	N int
}

func NewTraceWriter(path string) *TraceWriter {
	f, err := os.Create(path)
	if err != nil {
		die("create %s: %v", path, err)
	}
	return &TraceWriter{f: f, w: bufio.NewWriterSize(f, 1<<20)}
}

func (tw *TraceWriter) Write(e *Event) {
	e.norm()
	var b []byte
	var err error
	if e.Ev == "reset" {
		b, err = json.Marshal(&resetEvent{e.Ev, e.Tr, e.Kind, e.KeyType, e.Ctor, e.HasDef, e.Def, e.HasIntv, e.Intv, e.NoExp, e.DefExp, e.Unit, e.Cb, e.Now, e.X, e.C1, e.N, e.Note})
	} else {
		b, err = json.Marshal(e)
	}
	if err != nil {
		die("marshal: %v", err)
	}
	tw.w.Write(b)
	tw.w.WriteByte('\n')
	tw.N++
}

func (tw *TraceWriter) Close() {
	tw.w.Flush()
	tw.f.Close()
}

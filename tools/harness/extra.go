package main

// dispatchExtra is extended by the concurrent / lifecycle drivers.
func dispatchExtra(cmd, in, out, stats string) bool { return false }

package main

// dispatchExtra routes the concurrent / lifecycle drivers.
func dispatchExtra(cmd, in, out, stats string) bool {
	switch cmd {
	case "conc":
		dispatchConc(in, out, stats)
		return true
	case "life":
		dispatchLife(in, out, stats)
		return true
	}
	return false
}

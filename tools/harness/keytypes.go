package main

import (
	"fmt"
	"math"
	"strconv"
	"strings"
	"unsafe"

	"github.com/fufuok/cache"
)

// Key-type catalogue for C10. Every abstract key ("k7") is mapped to a Go key
// of the catalogue type in at least two REPRESENTATIONS that are == in Go
// (different memory for strings, +0/-0, dirty padding, separately boxed
// interface values); the representation alternates from call to call. Distinct
// abstract keys map to values that are != in Go. Results are judged by MapSem
// on the abstract names only, i.e. they must depend on the == class alone.

var cells [8192]int64 // pointees of pointer-typed keys; Scribble mutates them

func scribble() {
	for i := range cells {
		cells[i] += 7
	}
	for _, p := range keyerPtrs {
		p.junk += 3
	}
}

func freshString(s string) string {
	var b strings.Builder
	b.WriteString(s[:len(s)/2])
	b.WriteString(s[len(s)/2:])
	return b.String()
}

func strOf(i int, rep int) string {
	if i == 0 {
		if rep == 1 {
			return freshString("xy")[:0] // empty string with a non-nil data pointer
		}
		return ""
	}
	s := "key-" + strconv.Itoa(i)
	if rep == 1 {
		return freshString(s)
	}
	return s
}

func idxOfStr(s string) int {
	if s == "" {
		return 0
	}
	n, _ := strconv.Atoi(s[4:])
	return n
}

type padKey struct {
	A int8
	B int64
	C int8
}

func padOf(i, rep int) padKey {
	var k padKey
	if rep == 1 {
		b := (*[unsafe.Sizeof(padKey{})]byte)(unsafe.Pointer(&k))
		for j := range b {
			b[j] = 0xAB
		}
	}
	k.A, k.B, k.C = int8(i%100), int64(i), int8(i%7)
	return k
}

type nestedKey struct {
	N  string
	In struct {
		X string
		Y int32
		Z bool
	}
	F float64
}

func nestedOf(i, rep int) nestedKey {
	var k nestedKey
	k.N = strOf(i, rep)
	k.In.X = strOf(i%5, 1-rep)
	k.In.Y = int32(i)
	k.In.Z = i%2 == 0
	if i == 0 && rep == 1 {
		k.F = math.Copysign(0, -1)
	}
	return k
}

type Keyer interface{ Key() int }
type keyerInt int
type keyerStruct struct {
	S string
	I int
}
type keyerPtr struct {
	i    int
	junk int64
}

func (k keyerInt) Key() int    { return int(k) }
func (k keyerStruct) Key() int { return k.I }
func (k *keyerPtr) Key() int   { return k.i }

var keyerPtrs = func() []*keyerPtr {
	r := make([]*keyerPtr, 8192)
	for i := range r {
		r[i] = &keyerPtr{i: i}
	}
	return r
}()

func keyerOf(i, rep int) Keyer {
	switch i % 3 {
	case 0:
		return keyerInt(i)
	case 1:
		return keyerStruct{strOf(i, rep), i}
	default:
		return keyerPtrs[i%len(keyerPtrs)]
	}
}

// anyOf boxes a dynamic value of one of several comparable kinds; abstract
// key 0 is the nil interface.
func anyOf(i, rep int) any {
	if i == 0 {
		return nil
	}
	switch i % 6 {
	case 0:
		return int(i)
	case 1:
		return strOf(i, rep)
	case 2:
		return padOf(i, rep)
	case 3:
		return &cells[i%len(cells)] // pointer-shaped dynamic value
	case 4:
		return [2]int32{int32(i), 4}
	default:
		if i == 5 {
			if rep == 1 {
				return math.Copysign(0, -1)
			}
			return float64(0)
		}
		return float64(i) + 0.25
	}
}

func idxOfAny(v any) int {
	switch x := v.(type) {
	case nil:
		return 0
	case int:
		return x
	case string:
		return idxOfStr(x)
	case padKey:
		return int(x.B)
	case *int64:
		return int((uintptr(unsafe.Pointer(x)) - uintptr(unsafe.Pointer(&cells[0]))) / 8)
	case [2]int32:
		return int(x[0])
	case float64:
		if x == 0 {
			return 5
		}
		return int(x)
	}
	panic(fmt.Sprintf("idxOfAny: %T", v))
}

func rep2[K comparable](name string, mk func(i, rep int) K, inv func(K) int) KeyCodec[K] {
	ctr := 0
	return KeyCodec[K]{name,
		func(s string) K { ctr++; return mk(keyIndex(s), ctr%2) },
		func(k K) string { return keyName(inv(k)) }}
}

type mapCtor func(cfg MapCfg) MapAPI
type cacheCtor func(cfg CacheCfg, cb func(k, v string)) CacheAPI

func catMap[K comparable](kc KeyCodec[K]) (mapCtor, cacheCtor) {
	return func(cfg MapCfg) MapAPI { return newMapOf(cfg, kc, stringVals) },
		func(cfg CacheCfg, cb func(k, v string)) CacheAPI { return newCacheOf(cfg, cb, kc, stringVals) }
}

type catEntry struct {
	m mapCtor
	c cacheCtor
}

func mk[K comparable](kc KeyCodec[K]) catEntry {
	m, c := catMap(kc)
	return catEntry{m, c}
}

var catalogue = map[string]func() catEntry{
	"string": func() catEntry { return mk(rep2("string", strOf, idxOfStr)) },
	"int":    func() catEntry { return mk(rep2("int", func(i, r int) int { return i }, func(k int) int { return k })) },
	"int8": func() catEntry {
		return mk(rep2("int8", func(i, r int) int8 { return int8(i) }, func(k int8) int { return int(k) }))
	},
	"int16": func() catEntry {
		return mk(rep2("int16", func(i, r int) int16 { return int16(i) }, func(k int16) int { return int(k) }))
	},
	"int32": func() catEntry {
		return mk(rep2("int32", func(i, r int) int32 { return int32(i) }, func(k int32) int { return int(k) }))
	},
	"int64": func() catEntry {
		return mk(rep2("int64", func(i, r int) int64 { return int64(i) << 33 }, func(k int64) int { return int(k >> 33) }))
	},
	"uint8": func() catEntry {
		return mk(rep2("uint8", func(i, r int) uint8 { return uint8(i) }, func(k uint8) int { return int(k) }))
	},
	"uint16": func() catEntry {
		return mk(rep2("uint16", func(i, r int) uint16 { return uint16(i) }, func(k uint16) int { return int(k) }))
	},
	"uint32": func() catEntry {
		return mk(rep2("uint32", func(i, r int) uint32 { return uint32(i) }, func(k uint32) int { return int(k) }))
	},
	"uint64": func() catEntry {
		return mk(rep2("uint64", func(i, r int) uint64 { return uint64(i)<<40 | 0xff }, func(k uint64) int { return int(k >> 40) }))
	},
	"uintptr": func() catEntry {
		return mk(rep2("uintptr", func(i, r int) uintptr { return uintptr(i) }, func(k uintptr) int { return int(k) }))
	},
	"float64": func() catEntry {
		return mk(rep2("float64", func(i, r int) float64 {
			if i == 0 && r == 1 {
				return math.Copysign(0, -1)
			}
			return float64(i) * 1.5
		}, func(k float64) int { return int(math.Round(k / 1.5)) }))
	},
	"float32": func() catEntry {
		return mk(rep2("float32", func(i, r int) float32 {
			if i == 0 && r == 1 {
				return float32(math.Copysign(0, -1))
			}
			return float32(i)
		}, func(k float32) int { return int(k) }))
	},
	"complex128": func() catEntry {
		return mk(rep2("complex128", func(i, r int) complex128 {
			if i == 0 && r == 1 {
				return complex(math.Copysign(0, -1), 0)
			}
			return complex(float64(i), float64(i%3))
		}, func(k complex128) int { return int(real(k)) }))
	},
	"bool": func() catEntry {
		return mk(rep2("bool", func(i, r int) bool { return i%2 == 1 }, func(k bool) int {
			if k {
				return 1
			}
			return 2
		}))
	},
	"pointer": func() catEntry {
		return mk(rep2("pointer", func(i, r int) *int64 { return &cells[i%len(cells)] },
			func(k *int64) int { return int((uintptr(unsafe.Pointer(k)) - uintptr(unsafe.Pointer(&cells[0]))) / 8) }))
	},
	"array": func() catEntry {
		return mk(rep2("array", func(i, r int) [3]int32 { return [3]int32{int32(i), 7, int32(-i)} }, func(k [3]int32) int { return int(k[0]) }))
	},
	"strarray": func() catEntry {
		return mk(rep2("strarray", func(i, r int) [2]string { return [2]string{strOf(i, r), strOf(i%3, 1-r)} }, func(k [2]string) int { return idxOfStr(k[0]) }))
	},
	"padstruct": func() catEntry { return mk(rep2("padstruct", padOf, func(k padKey) int { return int(k.B) })) },
	"nested":    func() catEntry { return mk(rep2("nested", nestedOf, func(k nestedKey) int { return int(k.In.Y) })) },
	"any":       func() catEntry { return mk(rep2("any", anyOf, idxOfAny)) },
	"keyer":     func() catEntry { return mk(rep2("keyer", keyerOf, func(k Keyer) int { return k.Key() })) },
}

func catalogueNames() []string {
	var r []string
	for k := range catalogue {
		r = append(r, k)
	}
	return r
}

func newCatalogueMap(cfg MapCfg) MapAPI {
	name := strings.TrimPrefix(cfg.KeyType, "cat:")
	f, ok := catalogue[name]
	if !ok {
		die("unknown catalogue key type %q", name)
	}
	return f().m(cfg)
}

func newCatalogueCache(cfg CacheCfg, cb func(k, v string)) CacheAPI {
	name := strings.TrimPrefix(cfg.KeyType, "cat:")
	f, ok := catalogue[name]
	if !ok {
		die("unknown catalogue key type %q", name)
	}
	return f().c(cfg, cb)
}

var _ = cache.NoExpiration

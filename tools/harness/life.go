package main

import (
	"runtime"
	"sort"
	"sync"
	"sync/atomic"
	"time"

	"github.com/fufuok/cache"
	"github.com/fufuok/cache/zzverif/vtime"
)

// LifeProgram drives the janitor / lifecycle observations of C15 with native
// goroutines and the virtual clock (the janitor's ticker is fed by clock
// advances, its select loop runs unmodified).
type LifeProgram struct {
	Kind    string   `json:"kind"` // Cache | CacheOf
	Ctor    string   `json:"ctor"` // New | NewDefault
	HasIntv bool     `json:"hasintv"`
	Intv    int64    `json:"intv"` // ns
	Cb      bool     `json:"cb"`
	Steps   []LifeOp `json:"steps"`
	Note    string   `json:"note"`
}

type LifeOp struct {
	Op string `json:"op"` // set | advance | observe | deleteexpired | get | churn
	K  string `json:"k"`
	D  int64  `json:"d"`
	N  int    `json:"n"`
}

type sentinel struct {
	id  int
	pad [64]byte
}

type lifeCache interface {
	SetCb(cb func(k string))
	Set(k string, v *sentinel, d time.Duration)
	Get(k string) (*sentinel, bool)
	DeleteExpired()
	Count() int
}

type lcCache struct{ c cache.Cache }

func (l lcCache) Set(k string, v *sentinel, d time.Duration) { l.c.Set(k, v, d) }
func (l lcCache) SetCb(cb func(k string)) {
	if cb == nil {
		l.c.SetEvictedCallback(nil)
		return
	}
	l.c.SetEvictedCallback(func(k string, v interface{}) { cb(k) })
}
func (l lcCache) Get(k string) (*sentinel, bool) {
	v, ok := l.c.Get(k)
	if !ok {
		return nil, false
	}
	return v.(*sentinel), true
}
func (l lcCache) DeleteExpired() { l.c.DeleteExpired() }
func (l lcCache) Count() int     { return l.c.Count() }

type lcCacheOf struct {
	c cache.CacheOf[string, *sentinel]
}

func (l lcCacheOf) Set(k string, v *sentinel, d time.Duration) { l.c.Set(k, v, d) }
func (l lcCacheOf) SetCb(cb func(k string)) {
	if cb == nil {
		l.c.SetEvictedCallback(nil)
		return
	}
	l.c.SetEvictedCallback(func(k string, v *sentinel) { cb(k) })
}
func (l lcCacheOf) Get(k string) (*sentinel, bool) { return l.c.Get(k) }
func (l lcCacheOf) DeleteExpired()                 { l.c.DeleteExpired() }
func (l lcCacheOf) Count() int                     { return l.c.Count() }

func newLifeCache(p *LifeProgram, cb func(k string)) lifeCache {
	if p.Kind == "Cache" {
		var ecb cache.EvictedCallback
		if p.Cb {
			ecb = func(k string, v interface{}) { cb(k) }
		}
		if p.Ctor == "NewDefault" {
			if ecb != nil {
				return lcCache{cache.NewDefault(cache.NoExpiration, time.Duration(p.Intv), ecb)}
			}
			return lcCache{cache.NewDefault(cache.NoExpiration, time.Duration(p.Intv))}
		}
		var opts []cache.Option
		if p.HasIntv {
			opts = append(opts, cache.WithCleanupInterval(time.Duration(p.Intv)))
		}
		if ecb != nil {
			opts = append(opts, cache.WithEvictedCallback(ecb))
		}
		return lcCache{cache.New(opts...)}
	}
	var ecb cache.EvictedCallbackOf[string, *sentinel]
	if p.Cb {
		ecb = func(k string, v *sentinel) { cb(k) }
	}
	if p.Ctor == "NewDefault" {
		if ecb != nil {
			return lcCacheOf{cache.NewOfDefault[string, *sentinel](cache.NoExpiration, time.Duration(p.Intv), ecb)}
		}
		return lcCacheOf{cache.NewOfDefault[string, *sentinel](cache.NoExpiration, time.Duration(p.Intv))}
	}
	var opts []cache.OptionOf[string, *sentinel]
	if p.HasIntv {
		opts = append(opts, cache.WithCleanupIntervalOf[string, *sentinel](time.Duration(p.Intv)))
	}
	if ecb != nil {
		opts = append(opts, cache.WithEvictedCallbackOf[string, *sentinel](ecb))
	}
	return lcCacheOf{cache.NewOf[string, *sentinel](opts...)}
}

func waitTickers(want int, max time.Duration) {
	deadline := time.Now().Add(max)
	for vtime.ActiveTickers() < want && time.Now().Before(deadline) {
		time.Sleep(100 * time.Microsecond)
	}
}

// starved is set when a bounded real-time wait expired although an unrelated heartbeat goroutine was not getting
// scheduled either: the machine is overloaded and the observation says nothing (INCONCLUSIVE, never a verdict).
var starved int32

// settle waits (bounded, real time) until every fired tick has been consumed
// and Count has been stable for a while, i.e. a janitor pass, if any, is over.
func settle(c lifeCache) {
	var beats int64
	stop := make(chan struct{})
	go func() {
		for {
			select {
			case <-stop:
				return
			default:
				atomic.AddInt64(&beats, 1)
				time.Sleep(time.Millisecond)
			}
		}
	}()
	defer close(stop)
	start := time.Now()
	deadline := start.Add(5 * time.Second)
	last, stableSince := c.Count(), time.Now()
	for time.Now().Before(deadline) {
		time.Sleep(200 * time.Microsecond)
		n := c.Count()
		if n != last || vtime.PendingTicks() > 0 {
			last, stableSince = n, time.Now()
			continue
		}
		if time.Since(stableSince) > 20*time.Millisecond {
			return
		}
	}
	// the deadline expired: was the machine able to run goroutines at all? (5 s of 1 ms sleeps = thousands of beats)
	if atomic.LoadInt64(&beats) < 500 {
		atomic.StoreInt32(&starved, 1)
	}
}

// life traces are in microseconds (the default cleanup interval, 10 s, does not fit TLC's 32-bit integers in ns)
const lifeUnit = 1000

func runLife(p *LifeProgram, tr int, tw *TraceWriter) {
	vtime.ResetTimers()
	vtime.Set(1000 * lifeUnit)
	var mu sync.Mutex
	var ledger []KV
	mkcb := func(id string) func(k string) {
		return func(k string) {
			mu.Lock()
			ledger = append(ledger, KV{Cb: id, K: k})
			mu.Unlock()
		}
	}
	cb := mkcb("cb1")
	before := vtime.ActiveTickers()
	c := newLifeCache(p, cb)
	// the janitor creates its ticker inside its own goroutine: give it (bounded) time to start
	waitTickers(before+1, 40*time.Millisecond)
	periods := vtime.TickerPeriods()
	hdr := &Event{Ev: "reset", Tr: tr, Kind: p.Kind, Ctor: p.Ctor, HasIntv: p.HasIntv || p.Ctor == "NewDefault", Intv: p.Intv / lifeUnit, Now: vtime.VNow() / lifeUnit, Note: p.Note,
		N: vtime.ActiveTickers() - before, NoExp: int64(cache.NoExpiration) / lifeUnit, DefExp: int64(cache.DefaultCleanupInterval) / lifeUnit, Unit: lifeUnit}
	if p.Cb {
		hdr.Cb = "cb1"
	}
	if len(periods) > 0 {
		hdr.X = periods[len(periods)-1] / lifeUnit
	}
	tw.Write(hdr)
	sid := 0
	for _, op := range p.Steps {
		e := &Event{Ev: "life", Tr: tr, Op: op.Op, K: op.K, D: op.D / lifeUnit, Now: vtime.VNow() / lifeUnit}
		switch op.Op {
		case "set":
			sid++
			c.Set(op.K, &sentinel{id: sid}, time.Duration(op.D))
		case "advance":
			vtime.Advance(op.D)
			settle(c)
		case "get":
			_, e.Ok = c.Get(op.K)
		case "deleteexpired":
			c.DeleteExpired()
		case "setcb":
			if op.K == "" {
				c.SetCb(nil)
			} else {
				c.SetCb(mkcb(op.K))
			}
		case "observe":
		}
		e.X = int64(c.Count())
		if atomic.LoadInt32(&starved) == 1 {
			e.Note = "starved"
		}
		mu.Lock()
		e.Evs = append([]KV{}, ledger...)
		ledger = ledger[:0]
		mu.Unlock()
		sort.Slice(e.Evs, func(i, j int) bool { return e.Evs[i].K < e.Evs[j].K })
		tw.Write(e)
	}
	runtime.KeepAlive(c)
}

// runLifecycle creates n caches with janitors and entries holding
// finaliser-tracked sentinels, drops them, and observes goroutines, tickers
// and finalisers after GC.
func runLifecycle(kind string, n, entries int, intv int64, withCb bool, busy bool, tr int, tw *TraceWriter) {
	vtime.ResetTimers()
	vtime.Set(1000)
	runtime.GC()
	time.Sleep(10 * time.Millisecond)
	g0 := runtime.NumGoroutine()
	t0 := vtime.ActiveTickers()
	var finalized int64
	// baseline: an unrelated object's finaliser must run in the same window, otherwise the run says nothing
	var baseline int64
	func() {
		b := &sentinel{}
		runtime.SetFinalizer(b, func(*sentinel) { atomic.AddInt64(&baseline, 1) })
	}()
	func() {
		p := &LifeProgram{Kind: kind, Ctor: "New", HasIntv: true, Intv: intv, Cb: withCb}
		caches := make([]lifeCache, n)
		for i := range caches {
			cb := func(string) {}
			if busy {
				// a slow evicted callback keeps the janitor inside a pass while the cache is dropped and finalised
				cb = func(string) { time.Sleep(15 * time.Millisecond) }
			}
			caches[i] = newLifeCache(p, cb)
			for j := 0; j < entries; j++ {
				s := &sentinel{id: i*1000 + j}
				runtime.SetFinalizer(s, func(*sentinel) { atomic.AddInt64(&finalized, 1) })
				ttl := time.Hour
				if busy {
					ttl = 10 * time.Microsecond
				}
				caches[i].Set("k"+string(rune('a'+j)), s, ttl)
			}
		}
		waitTickers(t0+n, 3*time.Second)
		created := &Event{Ev: "life", Tr: tr, Op: "created", N: n, X: int64(vtime.ActiveTickers() - t0), C0: runtime.NumGoroutine() - g0}
		tw.Write(created)
		if busy {
			waitTickers(t0+n, 3*time.Second)
			vtime.Advance(2 * intv) // every janitor starts a pass and is held in its callbacks
			time.Sleep(2 * time.Millisecond)
		}
		for i := range caches {
			caches[i] = nil
		}
	}()
	deadline := time.Now().Add(20 * time.Second)
	rounds := 0
	for time.Now().Before(deadline) {
		runtime.GC()
		time.Sleep(5 * time.Millisecond)
		rounds++
		if vtime.ActiveTickers()-t0 == 0 && atomic.LoadInt64(&finalized) == int64(n*entries) && runtime.NumGoroutine() <= g0 && rounds >= 3 {
			break
		}
	}
	e := &Event{Ev: "life", Tr: tr, Op: "collected", N: n, X: int64(vtime.ActiveTickers() - t0), C0: runtime.NumGoroutine() - g0,
		C1: int(atomic.LoadInt64(&finalized)), D: int64(n * entries), Ok: atomic.LoadInt64(&baseline) == 1}
	tw.Write(e)
}

type LifeJob struct {
	Programs  []LifeProgram `json:"programs"`
	Lifecycle []struct {
		Kind    string `json:"kind"`
		N       int    `json:"n"`
		Entries int    `json:"entries"`
		Intv    int64  `json:"intv"`
		Cb      bool   `json:"cb"`
		Busy    bool   `json:"busy"`
	} `json:"lifecycle"`
}

func dispatchLife(in, out, stats string) {
	var job LifeJob
	readJSON(in, &job)
	tw := NewTraceWriter(out)
	tr := 0
	for i := range job.Programs {
		tr++
		runLife(&job.Programs[i], tr, tw)
	}
	for _, l := range job.Lifecycle {
		tr++
		tw.Write(&Event{Ev: "reset", Tr: tr, Kind: l.Kind, Ctor: "lifecycle", HasIntv: true, Intv: l.Intv / lifeUnit, Note: "lifecycle", Unit: lifeUnit})
		runLifecycle(l.Kind, l.N, l.Entries, l.Intv, l.Cb || l.Busy, l.Busy, tr, tw)
	}
	tw.Close()
}

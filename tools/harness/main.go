// harness is built inside the instrumented scratch copy of fufuok/cache. It
// executes programs / scenarios against the real code and writes ndjson
// traces that TLC validates against the specifications in /verif/specs.
package main

import (
	"encoding/json"
	"flag"
	"fmt"
	"os"

	"github.com/fufuok/cache"
	"github.com/fufuok/cache/zzverif/vsched"
)

const (
	noExpiration      = cache.NoExpiration
	defaultExpiration = cache.DefaultExpiration
)

func userYield() { vsched.UserPoint() }

func die(f string, a ...interface{}) {
	fmt.Fprintf(os.Stderr, "harness: "+f+"\n", a...)
	os.Exit(2)
}

func readJSON(path string, v interface{}) {
	b, err := os.ReadFile(path)
	if err != nil {
		die("read %s: %v", path, err)
	}
	if err := json.Unmarshal(b, v); err != nil {
		die("parse %s: %v", path, err)
	}
}

func writeJSON(path string, v interface{}) {
	b, _ := json.MarshalIndent(v, "", " ")
	if err := os.WriteFile(path, b, 0o644); err != nil {
		die("write %s: %v", path, err)
	}
}

func main() {
	if len(os.Args) < 2 {
		die("usage: harness <info|seq|conc|...> [flags]")
	}
	cmd := os.Args[1]
	fs := flag.NewFlagSet(cmd, flag.ExitOnError)
	in := fs.String("in", "", "input JSON")
	out := fs.String("out", "", "output ndjson trace")
	stats := fs.String("stats", "", "output stats JSON")
	fs.Parse(os.Args[2:])
	switch cmd {
	case "info":
		ms, mos, ml := geometry()
		json.NewEncoder(os.Stdout).Encode(map[string]interface{}{
			"NoExpiration": int64(cache.NoExpiration), "DefaultExpiration": int64(cache.DefaultExpiration),
			"DefaultCleanupInterval": int64(cache.DefaultCleanupInterval), "DefaultMinCapacity": cache.DefaultMinCapacity,
			"access": haveAccess, "pins": havePins, "phys": havePhys, "project": haveProject, "mapSlots": ms, "mapOfSlots": mos, "minTableLen": ml,
		})
	case "seq":
		var progs []SeqProgram
		readJSON(*in, &progs)
		tw := NewTraceWriter(*out)
		for i := range progs {
			if progs[i].Cache != nil {
				runSeqCache(&progs[i], i+1, tw)
			} else {
				runSeqMap(&progs[i], i+1, tw)
			}
		}
		tw.Close()
		if *stats != "" {
			writeJSON(*stats, map[string]interface{}{"programs": len(progs), "events": tw.N, "access": haveAccess})
		}
	default:
		if !dispatchExtra(cmd, *in, *out, *stats) {
			die("unknown command %q", cmd)
		}
	}
}

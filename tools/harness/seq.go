package main

import (
	"fmt"
	"sort"
	"strconv"
	"strings"
	"time"

	"github.com/fufuok/cache/zzverif/vtime"
)

// SeqOp is one step of a sequential program.
type SeqOp struct {
	Op string `json:"op"`
	K  string `json:"k"`
	V  string `json:"v"`
	D  int64  `json:"d"`
	Fn string `json:"fn"`
	Ft int64  `json:"ft"` // slow user function: the clock advances by ft units while it runs (cache programs)
	Lo int    `json:"lo"`
	Hi int    `json:"hi"`
}

func balKey(i int) string { return "b" + strconv.Itoa(i) }
func balVal(i int) string { return "v" + strconv.Itoa(1000000+i) }

// SeqProgram is a sequential program for one container instance.
type SeqProgram struct {
	Cache *CacheCfg `json:"cache,omitempty"`
	Map   *MapCfg   `json:"map,omitempty"`
	Unit  int64     `json:"unit"` // 1 (ns regime) or 1e9 (s regime); durations in the program are in units
	Ops   []SeqOp   `json:"ops"`
	Note  string    `json:"note"`
	Pin   *Pin      `json:"pin,omitempty"`
	// Watch: every call runs under a (real-time, generous) watchdog; a call that does not return is recorded as an
	// observation with note "hang" and ends the program (re-entrant callbacks, C13/C06)
	Watch bool `json:"watch,omitempty"`
}

// computeFn builds a Compute user function from the catalogue.
func computeFn(name, v string, calls *int, fo *string, fl *bool) func(string, bool) (string, bool) {
	return func(old string, loaded bool) (string, bool) {
		*calls++
		*fo, *fl = old, loaded
		userYield()
		switch name {
		case "set":
			return v, false
		case "del":
			return Nil, true
		case "delret":
			return v, true
		case "keep":
			return old, false
		case "toggle":
			if loaded {
				return Nil, true
			}
			return v, false
		case "setifabsent":
			if loaded {
				return old, false
			}
			return v, false
		}
		panic("unknown compute fn " + name)
	}
}

func sortedKV(m map[string]string) []KV {
	r := make([]KV, 0, len(m))
	for k, v := range m {
		r = append(r, KV{K: k, V: v})
	}
	sort.Slice(r, func(i, j int) bool { return r[i].K < r[j].K })
	return r
}

// visitor builds a Range visitor: "all" or "stop:N" (return false on the Nth visit).
func visitor(name string, vis *[]KV) func(k, v string) bool {
	stop := -1
	if strings.HasPrefix(name, "stop:") {
		stop, _ = strconv.Atoi(name[5:])
	}
	return func(k, v string) bool {
		*vis = append(*vis, KV{K: k, V: v})
		if stop > 0 && len(*vis) >= stop {
			return false
		}
		return true
	}
}

// runSeqCache executes p on a fresh cache and writes one "reset" event and
// one "op" event per step. All instants and durations are logged in units.
func runSeqCache(p *SeqProgram, tr int, tw *TraceWriter) {
	unit := p.Unit
	if unit == 0 {
		unit = 1
	}
	vtime.ResetTimers()
	vtime.Set(1000 * unit)
	var cur *Event
	var cself CacheAPI
	mkcb := func(id string) func(k, v string) {
		return func(k, v string) {
			if cur != nil {
				cur.Evs = append(cur.Evs, KV{Cb: id, K: k, V: v})
			}
			// re-entrant callbacks: the callback reads the evicted key back (no logical effect: the entry is gone)
			if strings.HasPrefix(id, "cbGet") && cself != nil {
				cself.Get(k)
				cself.Count()
			}
		}
	}
	cfg := *p.Cache
	cfg.Def *= unit
	cfg.Interval *= unit
	var cb func(k, v string)
	if cfg.Cb != "" {
		cb = mkcb(cfg.Cb)
	}
	applyPin(p.Pin)
	c := newCache(cfg, cb)
	cself = c
	defer clearPin()
	hdr := &Event{Ev: "reset", Tr: tr, Kind: cfg.Kind, KeyType: cfg.KeyType, Ctor: cfg.Ctor, HasDef: cfg.HasDef || cfg.Ctor == "NewDefault", Def: p.Cache.Def,
		HasIntv: cfg.HasIntv || cfg.Ctor == "NewDefault", Intv: p.Cache.Interval, Cb: cfg.Cb,
		NoExp: int64(noExpiration) / unit, DefExp: int64(defaultExpiration) / unit, Unit: unit, Now: vtime.VNow() / unit, Note: p.Note,
		X: c.DefaultExpiration() / unit, C1: c.Count()}
	tw.Write(hdr)
	prevCount := c.Count()
	for _, op := range p.Ops {
		e := &Event{Ev: "op", Tr: tr, Op: op.Op, K: op.K, V: op.V, D: op.D, Fn: op.Fn, Rv: Nil, Now: vtime.VNow() / unit, C0: prevCount}
		cur = e
		d := op.D * unit
		exec := func() {
			switch op.Op {
			case "Tick":
				e.Ev = "tick"
				vtime.Advance(d)
			case "Set":
				c.Set(op.K, op.V, d)
			case "SetDefault":
				c.SetDefault(op.K, op.V)
			case "SetForever":
				c.SetForever(op.K, op.V)
			case "Get":
				e.Rv, e.Ok = c.Get(op.K)
			case "GetWithExpiration":
				var x int64
				e.Rv, x, e.Ok = c.GetWithExpiration(op.K)
				e.X = divExact(x, unit, e)
			case "GetWithTTL":
				var x int64
				e.Rv, x, e.Ok = c.GetWithTTL(op.K)
				e.X = divExact(x, unit, e)
			case "GetOrSet":
				e.Rv, e.Ok = c.GetOrSet(op.K, op.V, d)
			case "GetAndSet":
				e.Rv, e.Ok = c.GetAndSet(op.K, op.V, d)
			case "GetAndRefresh":
				e.Rv, e.Ok = c.GetAndRefresh(op.K, d)
			case "GetOrCompute":
				e.Rv, e.Ok = c.GetOrCompute(op.K, func() string {
					e.N++
					userYield()
					if op.Ft > 0 {
						e.Ft += op.Ft
						vtime.Advance(op.Ft * unit)
					}
					return op.V
				}, d)
			case "Compute":
				e.Fo = Nil
				inner := computeFn(op.Fn, op.V, &e.N, &e.Fo, &e.Fl)
				e.Rv, e.Ok = c.Compute(op.K, func(o string, l bool) (string, bool) {
					if op.Ft > 0 {
						e.Ft += op.Ft
						vtime.Advance(op.Ft * unit)
					}
					return inner(o, l)
				}, d)
			case "GetAndDelete":
				e.Rv, e.Ok = c.GetAndDelete(op.K)
			case "Delete":
				c.Delete(op.K)
			case "DeleteExpired":
				c.DeleteExpired()
			case "Range":
				c.Range(visitor(op.Fn, &e.Vis))
				sort.Slice(e.Vis, func(i, j int) bool { return e.Vis[i].K < e.Vis[j].K })
			case "RangeNil":
				c.RangeNil()
			case "Items":
				e.Vis = sortedKV(c.Items())
			case "Clear":
				c.Clear()
			case "Count":
				e.X = int64(c.Count())
			case "DefaultExpiration":
				e.X = divExact(c.DefaultExpiration(), unit, e)
			case "SetDefaultExpiration":
				c.SetDefaultExpiration(d)
			case "SetEvictedCallback":
				if op.Fn == "" || op.Fn == "nil" {
					c.SetEvictedCallback(nil)
				} else {
					c.SetEvictedCallback(mkcb(op.Fn))
				}
			default:
				die("unknown cache op %q", op.Op)
			}
		}
		if p.Watch {
			done := make(chan struct{})
			go func() { defer close(done); exec() }()
			select {
			case <-done:
			case <-time.After(20 * time.Second):
				e.Note = "hang"
				tw.Write(e)
				return
			}
		} else {
			exec()
		}
		cur = nil
		e.C1 = c.Count()
		prevCount = e.C1
		e.Phys, e.HasPhys = physOf(c, unit)
		tw.Write(e)
	}
}

// divExact converts a nanosecond quantity to units; a value that is not a
// multiple of the unit is flagged in the note (it can only arise from a bug).
func divExact(x, unit int64, e *Event) int64 {
	if unit != 1 && x%unit != 0 {
		e.Note = "inexact:" + strconv.FormatInt(x, 10)
	}
	return x / unit
}

// runSeqMap executes p on a fresh Map/MapOf.
func runSeqMap(p *SeqProgram, tr int, tw *TraceWriter) {
	applyPin(p.Pin)
	m := newMap(*p.Map)
	defer clearPin()
	hdr := &Event{Ev: "reset", Tr: tr, Kind: p.Map.Kind, KeyType: p.Map.KeyType, HasDef: p.Map.HasHint, Def: int64(p.Map.Hint), Note: p.Note, C1: m.Size(), Unit: 1}
	tw.Write(hdr)
	prev := m.Size()
	for _, op := range p.Ops {
		e := &Event{Ev: "op", Tr: tr, Op: op.Op, K: op.K, V: op.V, Fn: op.Fn, Rv: Nil, C0: prev, Lo: op.Lo, Hi: op.Hi}
		func() {
			// no valid key may make an operation panic (C10): a panic becomes an observation no spec action matches
			defer func() {
				if p := recover(); p != nil {
					e.Rv, e.Note = "PANIC", fmt.Sprint(p)
				}
			}()
			runMapOp(m, op, e)
		}()
		e.C1 = m.Size()
		prev = e.C1
		tw.Write(e)
	}
}

func runMapOp(m MapAPI, op SeqOp, e *Event) {
	switch op.Op {
	case "Load":
		e.Rv, e.Ok = m.Load(op.K)
	case "Store":
		m.Store(op.K, op.V)
	case "LoadOrStore":
		e.Rv, e.Ok = m.LoadOrStore(op.K, op.V)
	case "LoadAndStore":
		e.Rv, e.Ok = m.LoadAndStore(op.K, op.V)
	case "LoadOrCompute":
		e.Rv, e.Ok = m.LoadOrCompute(op.K, func() string { e.N++; userYield(); return op.V })
	case "Compute":
		e.Fo = Nil
		e.Rv, e.Ok = m.Compute(op.K, computeFn(op.Fn, op.V, &e.N, &e.Fo, &e.Fl))
	case "LoadAndDelete":
		e.Rv, e.Ok = m.LoadAndDelete(op.K)
	case "Delete":
		m.Delete(op.K)
	case "Range":
		// ballast keys are counted (n) when they carry their own value, anything else is listed
		seenBal := map[string]bool{}
		inner := visitor(op.Fn, &e.Vis)
		visits := 0
		stop := -1
		if strings.HasPrefix(op.Fn, "stop:") {
			stop, _ = strconv.Atoi(op.Fn[5:])
		}
		m.Range(func(k, v string) bool {
			if len(k) > 1 && k[0] == 'b' {
				if i, err := strconv.Atoi(k[1:]); err == nil && v == balVal(i) && !seenBal[k] {
					seenBal[k] = true
					e.N++
					visits++
					return !(stop > 0 && visits >= stop)
				}
			}
			visits++
			inner(k, v)
			return !(stop > 0 && visits >= stop)
		})
		sort.Slice(e.Vis, func(i, j int) bool { return e.Vis[i].K < e.Vis[j].K })
	case "BulkStore":
		for i := op.Lo; i <= op.Hi; i++ {
			m.Store(balKey(i), balVal(i))
		}
	case "BulkLoad":
		for i := op.Lo; i <= op.Hi; i++ {
			if v, ok := m.Load(balKey(i)); ok {
				e.N++
				if v == balVal(i) {
					e.X++
				}
			}
		}
	case "BulkDelete":
		for i := op.Lo; i <= op.Hi; i++ {
			if v, ok := m.LoadAndDelete(balKey(i)); ok {
				e.N++
				if v == balVal(i) {
					e.X++
				}
			}
		}
	case "Scribble":
		scribble()
	case "Clear":
		m.Clear()
	case "Size":
		e.X = int64(m.Size())
	default:
		die("unknown map op %q", op.Op)
	}
}

// instrument builds the scratch copy every check runs against: it copies the
// non-test Go sources of the repository working tree, substitutes the imports
// of time, sync, sync/atomic and runtime by the shim packages (keeping the
// local package name, so no other byte of repository code changes and line
// numbers stay identical), optionally renames the two hash entry points so
// that layout-pinning scenarios can override them, and adds the shim
// packages, the in-package access files and the harness.
//
// It also emits sitemap.json (every sync/atomic / sync / runtime.Gosched call
// site with its enclosing function, operation and operand text) and
// modes.json (for C14: every syntactic access to the shared words of the
// CLHT tables classified as atomic or plain).
package main

import (
	"bytes"
	"encoding/json"
	"flag"
	"fmt"
	"go/ast"
	"go/parser"
	"go/printer"
	"go/token"
	"io/fs"
	"os"
	"path/filepath"
	"sort"
	"strings"
)

var subst = map[string]string{
	"time":        "github.com/fufuok/cache/zzverif/vtime",
	"sync/atomic": "github.com/fufuok/cache/zzverif/vatomic",
	"sync":        "github.com/fufuok/cache/zzverif/vsync",
	"runtime":     "github.com/fufuok/cache/zzverif/vruntime",
}

var defaultName = map[string]string{"time": "time", "sync/atomic": "atomic", "sync": "sync", "runtime": "runtime"}

// functions renamed to <name>_orig when -pins is given (wrappers live in the access file)
var pinFuncs = map[string]bool{"hashString": true, "makeSeed": true}

type site struct {
	File    string `json:"file"`
	Line    int    `json:"line"`
	Func    string `json:"func"`
	Op      string `json:"op"`
	Operand string `json:"operand"`
	Ordinal int    `json:"ordinal"`
	Key     string `json:"key"`
}

type access struct {
	File  string `json:"file"`
	Line  int    `json:"line"`
	Func  string `json:"func"`
	Field string `json:"field"`
	Mode  string `json:"mode"` // atomic | plain
	Write bool   `json:"write"`
	Text  string `json:"text"`
}

var sharedFields = map[string]bool{"keys": true, "values": true, "topHashMutex": true, "next": true, "meta": true, "entries": true, "table": true, "resizing": true, "c": true, "defaultExpiration": true, "evictedCallback": true, "totalGrowths": true, "totalShrinks": true}

type edit struct {
	off int
	len int
	rep string
}

func main() {
	src := flag.String("src", "/repo", "repository working tree")
	dst := flag.String("dst", "", "scratch directory (must exist and be empty)")
	tools := flag.String("tools", "/verif/tools", "verification tools directory")
	pins := flag.Bool("pins", true, "rename hashString/makeSeed and add the layout-pinning access files")
	cpins := flag.Bool("cpins", true, "add the CacheOf layout-pinning access file (package cache)")
	phys := flag.Bool("phys", true, "add the physical-items access file (package cache)")
	project := flag.Bool("project", true, "add the table-projection access files")
	noshim := flag.Bool("noshim", false, "copy only (no import substitution; for the -race build of C14)")
	flag.Parse()
	if *dst == "" {
		fatal("need -dst")
	}
	var sites []site
	var accesses []access
	renamed := map[string]bool{}
	err := filepath.WalkDir(*src, func(p string, d fs.DirEntry, err error) error {
		if err != nil {
			return err
		}
		rel, _ := filepath.Rel(*src, p)
		if d.IsDir() {
			base := d.Name()
			if rel != "." && (strings.HasPrefix(base, ".") || base == "examples" || base == "testdata" || base == "zzverif" || base == "vendor") {
				return filepath.SkipDir
			}
			return os.MkdirAll(filepath.Join(*dst, rel), 0o755)
		}
		if rel == "go.mod" {
			b, err := os.ReadFile(p)
			if err != nil {
				return err
			}
			lines := strings.Split(string(b), "\n")
			for i, l := range lines {
				if strings.HasPrefix(l, "go ") {
					lines[i] = "go 1.21"
				}
			}
			return os.WriteFile(filepath.Join(*dst, rel), []byte(strings.Join(lines, "\n")), 0o644)
		}
		if rel == "go.sum" {
			return copyFile(p, filepath.Join(*dst, rel))
		}
		if !strings.HasSuffix(rel, ".go") || strings.HasSuffix(rel, "_test.go") {
			return nil
		}
		b, err := os.ReadFile(p)
		if err != nil {
			return err
		}
		if *noshim {
			return os.WriteFile(filepath.Join(*dst, rel), b, 0o644)
		}
		out, ss, as, rn, err := rewrite(rel, b, *pins)
		if err != nil {
			return fmt.Errorf("%s: %v", rel, err)
		}
		sites = append(sites, ss...)
		accesses = append(accesses, as...)
		for _, r := range rn {
			renamed[r] = true
		}
		return os.WriteFile(filepath.Join(*dst, rel), out, 0o644)
	})
	if err != nil {
		fatal(err.Error())
	}
	zz := filepath.Join(*dst, "zzverif")
	if !*noshim {
		for _, s := range []string{"vsched", "vtime", "vatomic", "vsync", "vruntime"} {
			must(copyDir(filepath.Join(*tools, "shims", s), filepath.Join(zz, s)))
		}
	}
	if *noshim {
		// the -race observer of C14: the repository's own compiled code, no shims
		must(copyDir(filepath.Join(*tools, "raceharness"), filepath.Join(zz, "harness")))
		for _, f := range []string{"api.go", "events.go", "access_common.go", "access_pins_off.go", "access_cpins_off.go", "access_phys_off.go", "access_proj_off.go", "keytypes.go"} {
			must(copyFile(filepath.Join(*tools, "harness", f), filepath.Join(zz, "harness", f)))
		}
	} else {
		must(copyDir(filepath.Join(*tools, "harness"), filepath.Join(zz, "harness")))
	}
	if *pins && !*noshim {
		must(copyFile(filepath.Join(*tools, "access", "xsync_pins.go.txt"), filepath.Join(*dst, "internal", "xsync", "zz_verif_pins_access.go")))
		if *cpins {
			must(copyFile(filepath.Join(*tools, "access", "cache_pins.go.txt"), filepath.Join(*dst, "zz_verif_cpins_access.go")))
		}
		// wrappers only for the functions that were actually found and renamed
		var w bytes.Buffer
		w.WriteString("package xsync\n\n")
		if renamed["hashString"] {
			w.WriteString("func hashString(s string, seed uint64) uint64 {\n\tif VerifHashString != nil {\n\t\tif h, ok := VerifHashString(s, seed); ok {\n\t\t\treturn h\n\t\t}\n\t}\n\treturn hashString_orig(s, seed)\n}\n\n")
		}
		if renamed["makeSeed"] {
			w.WriteString("func makeSeed() uint64 {\n\tif VerifMakeSeed != nil {\n\t\treturn VerifMakeSeed()\n\t}\n\treturn makeSeed_orig()\n}\n")
		}
		must(os.WriteFile(filepath.Join(*dst, "internal", "xsync", "zz_verif_pins_wrappers.go"), w.Bytes(), 0o644))
	}
	if *phys && !*noshim {
		must(copyFile(filepath.Join(*tools, "access", "cache_phys.go.txt"), filepath.Join(*dst, "zz_verif_phys_access.go")))
	}
	if *project && !*noshim {
		must(copyFile(filepath.Join(*tools, "access", "xsync_project.go.txt"), filepath.Join(*dst, "internal", "xsync", "zz_verif_project_access.go")))
		must(copyFile(filepath.Join(*tools, "access", "cache_project.go.txt"), filepath.Join(*dst, "zz_verif_project_access.go")))
	}
	sort.Slice(sites, func(i, j int) bool {
		if sites[i].File != sites[j].File {
			return sites[i].File < sites[j].File
		}
		return sites[i].Line < sites[j].Line
	})
	jb, _ := json.MarshalIndent(map[string]interface{}{"sites": sites, "renamed": keys(renamed)}, "", " ")
	must(os.WriteFile(filepath.Join(*dst, "sitemap.json"), jb, 0o644))
	jb, _ = json.MarshalIndent(accesses, "", " ")
	must(os.WriteFile(filepath.Join(*dst, "modes.json"), jb, 0o644))
}

func keys(m map[string]bool) []string {
	var r []string
	for k := range m {
		r = append(r, k)
	}
	sort.Strings(r)
	return r
}

func rewrite(rel string, b []byte, pins bool) ([]byte, []site, []access, []string, error) {
	fset := token.NewFileSet()
	f, err := parser.ParseFile(fset, rel, b, parser.ParseComments)
	if err != nil {
		return nil, nil, nil, nil, err
	}
	var edits []edit
	local := map[string]string{} // local package name -> original import path
	for _, im := range f.Imports {
		path := strings.Trim(im.Path.Value, "\"`")
		np, ok := subst[path]
		if !ok {
			continue
		}
		name := defaultName[path]
		if im.Name != nil {
			name = im.Name.Name
		}
		local[name] = path
		start := fset.Position(im.Pos()).Offset
		end := fset.Position(im.End()).Offset
		rep := name + " \"" + np + "\""
		if im.Name != nil && (im.Name.Name == "_" || im.Name.Name == ".") {
			rep = im.Name.Name + " \"" + np + "\""
		}
		edits = append(edits, edit{start, end - start, rep})
	}
	var renamed []string
	if pins && f.Name.Name == "xsync" {
		for _, d := range f.Decls {
			fd, ok := d.(*ast.FuncDecl)
			if ok && fd.Recv == nil && pinFuncs[fd.Name.Name] {
				off := fset.Position(fd.Name.Pos()).Offset
				edits = append(edits, edit{off, len(fd.Name.Name), fd.Name.Name + "_orig"})
				renamed = append(renamed, fd.Name.Name)
			}
		}
	}
	// site map and access modes
	var sites []site
	var accs []access
	for _, d := range f.Decls {
		fd, ok := d.(*ast.FuncDecl)
		if !ok || fd.Body == nil {
			continue
		}
		fname := fd.Name.Name
		ord := map[string]int{}
		atomicArgs := map[ast.Node]bool{}
		ast.Inspect(fd.Body, func(n ast.Node) bool {
			ce, ok := n.(*ast.CallExpr)
			if !ok {
				return true
			}
			se, ok := ce.Fun.(*ast.SelectorExpr)
			if !ok {
				return true
			}
			op, operand := "", ""
			if id, ok := se.X.(*ast.Ident); ok && local[id.Name] == "sync/atomic" {
				op = se.Sel.Name
				if len(ce.Args) > 0 {
					operand = nodeText(fset, ce.Args[0])
					atomicArgs[ce.Args[0]] = true
				}
			} else if id, ok := se.X.(*ast.Ident); ok && local[id.Name] == "runtime" && se.Sel.Name == "Gosched" {
				op = "Gosched"
			} else {
				switch se.Sel.Name {
				case "Lock", "Unlock", "Wait", "Broadcast", "Signal":
					op = se.Sel.Name
					operand = nodeText(fset, se.X)
				case "Load", "Store":
					// atomic.Value fields
					t := nodeText(fset, se.X)
					if strings.HasSuffix(t, "defaultExpiration") || strings.HasSuffix(t, "evictedCallback") {
						op = "Value." + se.Sel.Name
						operand = t
						atomicArgs[se.X] = true
					}
				}
			}
			if op == "" {
				return true
			}
			k := op + ":" + operand
			ord[k]++
			pos := fset.Position(ce.Pos())
			sites = append(sites, site{File: rel, Line: pos.Line, Func: fname, Op: op, Operand: operand, Ordinal: ord[k],
				Key: fmt.Sprintf("%s:%s:%s:%s#%d", filepath.Base(rel), fname, op, operand, ord[k])})
			return true
		})
		// access modes: selector expressions on shared fields
		writes := map[ast.Node]bool{}
		ast.Inspect(fd.Body, func(n ast.Node) bool {
			switch s := n.(type) {
			case *ast.AssignStmt:
				for _, l := range s.Lhs {
					writes[l] = true
				}
			case *ast.IncDecStmt:
				writes[s.X] = true
			}
			return true
		})
		var visit func(n ast.Node, inAtomic bool, isWrite bool)
		visit = func(n ast.Node, inAtomic bool, isWrite bool) {}
		_ = visit
		ast.Inspect(fd.Body, func(n ast.Node) bool {
			var sel *ast.SelectorExpr
			var whole ast.Node
			switch e := n.(type) {
			case *ast.IndexExpr:
				if s, ok := e.X.(*ast.SelectorExpr); ok {
					sel, whole = s, e
				}
			case *ast.SelectorExpr:
				sel, whole = e, e
			}
			if sel == nil || !sharedFields[sel.Sel.Name] {
				return true
			}
			// skip the inner selector of an index expression we already recorded
			mode := "plain"
			for a := range atomicArgs {
				if a.Pos() <= whole.Pos() && whole.End() <= a.End() {
					mode = "atomic"
				}
			}
			w := false
			for l := range writes {
				if l.Pos() <= whole.Pos() && whole.End() <= l.End() {
					w = true
				}
			}
			pos := fset.Position(whole.Pos())
			accs = append(accs, access{File: rel, Line: pos.Line, Func: fname, Field: sel.Sel.Name, Mode: mode, Write: w, Text: nodeText(fset, whole)})
			if _, isIdx := whole.(*ast.IndexExpr); isIdx {
				return false
			}
			return true
		})
	}
	// apply edits back to front
	sort.Slice(edits, func(i, j int) bool { return edits[i].off > edits[j].off })
	out := append([]byte(nil), b...)
	for _, e := range edits {
		out = append(out[:e.off], append([]byte(e.rep), out[e.off+e.len:]...)...)
	}
	return out, sites, accs, renamed, nil
}

func nodeText(fset *token.FileSet, n ast.Node) string {
	var buf bytes.Buffer
	printer.Fprint(&buf, fset, n)
	return strings.Join(strings.Fields(buf.String()), "")
}

func copyFile(a, b string) error {
	data, err := os.ReadFile(a)
	if err != nil {
		return err
	}
	if err := os.MkdirAll(filepath.Dir(b), 0o755); err != nil {
		return err
	}
	return os.WriteFile(b, data, 0o644)
}

func copyDir(a, b string) error {
	return filepath.WalkDir(a, func(p string, d fs.DirEntry, err error) error {
		if err != nil {
			return err
		}
		rel, _ := filepath.Rel(a, p)
		if d.IsDir() {
			return os.MkdirAll(filepath.Join(b, rel), 0o755)
		}
		if strings.HasSuffix(p, ".go") {
			return copyFile(p, filepath.Join(b, rel))
		}
		return nil
	})
}

func must(err error) {
	if err != nil {
		fatal(err.Error())
	}
}

func fatal(s string) {
	fmt.Fprintln(os.Stderr, "instrument:", s)
	os.Exit(2)
}

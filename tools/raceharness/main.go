// raceharness is built with -race inside an UNINSTRUMENTED scratch copy of
// fufuok/cache (no shims: the compiled code is the repository's own). It is
// the external dynamic observer C14 needs:
//
//	stress  natively parallel programs (2..64 goroutines) on all four
//	        containers with values that are pointers to freshly initialised
//	        structs whose checksum is verified on every read, the janitor
//	        running on a short real interval, SetDefaultExpiration /
//	        SetEvictedCallback racing with everything, Range during writes,
//	        grows, shrinks and Clear. The race detector reports to a log file.
//	lin     small natively parallel programs whose call/return events are
//	        stamped with one atomic counter; the histories are validated by
//	        TLC against MapLin / CacheLin (real parallelism, weak memory).
package main

import (
	"encoding/json"
	"flag"
	"fmt"
	"math/rand"
	"os"
	"runtime"
	"sort"
	"sync"
	"sync/atomic"
	"time"

	"github.com/fufuok/cache"
)

func die(f string, a ...interface{}) {
	fmt.Fprintf(os.Stderr, "raceharness: "+f+"\n", a...)
	os.Exit(2)
}

func userYield() { runtime.Gosched() }

type payload struct {
	a, b, c uint64
	s       string
	sum     uint64
}

func newPayload(r *rand.Rand) *payload {
	p := &payload{a: r.Uint64(), b: r.Uint64(), c: r.Uint64(), s: fmt.Sprint(r.Int63())}
	p.sum = p.a ^ p.b ^ p.c ^ uint64(len(p.s))
	return p
}

var corrupt int64

func check(p *payload) {
	if p == nil {
		return
	}
	if p.sum != p.a^p.b^p.c^uint64(len(p.s)) {
		atomic.AddInt64(&corrupt, 1)
	}
}

type stressStats struct {
	Ops      int64 `json:"ops"`
	Corrupt  int64 `json:"corrupt"`
	Programs int   `json:"programs"`
}

func keyOf(r *rand.Rand, space int) int { return r.Intn(space) }

// one stress program on Map / MapOf
func stressMaps(seed int64, goroutines, opsPer, space int, st *stressStats) {
	m := cache.NewMap()
	mo := cache.NewMapOf[int, *payload]()
	ms := cache.NewMapOf[string, *payload]()
	var wg sync.WaitGroup
	for g := 0; g < goroutines; g++ {
		wg.Add(1)
		go func(g int) {
			defer wg.Done()
			r := rand.New(rand.NewSource(seed*1000 + int64(g)))
			for i := 0; i < opsPer; i++ {
				k := keyOf(r, space)
				ks := fmt.Sprint("k", k)
				switch r.Intn(14) {
				case 0, 1:
					m.Store(ks, newPayload(r))
					mo.Store(k, newPayload(r))
					ms.Store(ks, newPayload(r))
				case 2, 3, 4:
					if v, ok := m.Load(ks); ok {
						check(v.(*payload))
					}
					if v, ok := mo.Load(k); ok {
						check(v)
					}
					if v, ok := ms.Load(ks); ok {
						check(v)
					}
				case 5:
					v, _ := m.LoadOrStore(ks, newPayload(r))
					check(v.(*payload))
					v2, _ := mo.LoadOrStore(k, newPayload(r))
					check(v2)
				case 6:
					if v, ok := m.LoadAndStore(ks, newPayload(r)); ok {
						check(v.(*payload))
					}
					if v, ok := mo.LoadAndStore(k, newPayload(r)); ok {
						check(v)
					}
				case 7:
					v, _ := m.LoadOrCompute(ks, func() interface{} { return newPayload(r) })
					check(v.(*payload))
					v2, _ := ms.LoadOrCompute(ks, func() *payload { return newPayload(r) })
					check(v2)
				case 8:
					m.Compute(ks, func(old interface{}, loaded bool) (interface{}, bool) {
						if loaded {
							check(old.(*payload))
						}
						return newPayload(r), r.Intn(3) == 0
					})
					mo.Compute(k, func(old *payload, loaded bool) (*payload, bool) {
						check(old)
						return newPayload(r), r.Intn(3) == 0
					})
				case 9:
					if v, ok := m.LoadAndDelete(ks); ok {
						check(v.(*payload))
					}
					if v, ok := mo.LoadAndDelete(k); ok {
						check(v)
					}
					ms.Delete(ks)
				case 10:
					m.Delete(ks)
					mo.Delete(k)
				case 11:
					n := 0
					m.Range(func(k string, v interface{}) bool { check(v.(*payload)); n++; return n < 50 })
					mo.Range(func(k int, v *payload) bool { check(v); return true })
				case 12:
					_ = m.Size() + mo.Size() + ms.Size()
				case 13:
					if r.Intn(40) == 0 {
						m.Clear()
						mo.Clear()
						ms.Clear()
					}
				}
				atomic.AddInt64(&st.Ops, 1)
			}
		}(g)
	}
	wg.Wait()
}

// one stress program on Cache / CacheOf with the janitor running
func stressCaches(seed int64, goroutines, opsPer, space int, st *stressStats) {
	var evicted int64
	c := cache.New(cache.WithCleanupInterval(time.Millisecond), cache.WithDefaultExpiration(2*time.Millisecond),
		cache.WithEvictedCallback(func(k string, v interface{}) { check(v.(*payload)); atomic.AddInt64(&evicted, 1) }))
	co := cache.NewOf[int, *payload](cache.WithCleanupIntervalOf[int, *payload](time.Millisecond),
		cache.WithEvictedCallbackOf[int, *payload](func(k int, v *payload) { check(v); atomic.AddInt64(&evicted, 1) }))
	cd := cache.NewOfDefault[string, *payload](3*time.Millisecond, time.Millisecond)
	ttl := func(r *rand.Rand) time.Duration {
		switch r.Intn(5) {
		case 0:
			return cache.NoExpiration
		case 1:
			return cache.DefaultExpiration
		case 2:
			return time.Duration(r.Intn(3000)) * time.Microsecond
		default:
			return time.Duration(1+r.Intn(5)) * time.Millisecond
		}
	}
	var wg sync.WaitGroup
	for g := 0; g < goroutines; g++ {
		wg.Add(1)
		go func(g int) {
			defer wg.Done()
			r := rand.New(rand.NewSource(seed*1000 + int64(g)))
			for i := 0; i < opsPer; i++ {
				k := keyOf(r, space)
				ks := fmt.Sprint("k", k)
				switch r.Intn(20) {
				case 0, 1:
					c.Set(ks, newPayload(r), ttl(r))
					co.Set(k, newPayload(r), ttl(r))
					cd.SetDefault(ks, newPayload(r))
				case 2, 3, 4:
					if v, ok := c.Get(ks); ok {
						check(v.(*payload))
					}
					if v, ok := co.Get(k); ok {
						check(v)
					}
					if v, _, ok := cd.GetWithTTL(ks); ok {
						check(v)
					}
				case 5:
					v, _ := c.GetOrSet(ks, newPayload(r), ttl(r))
					check(v.(*payload))
					v2, _ := co.GetOrSet(k, newPayload(r), ttl(r))
					check(v2)
				case 6:
					v, _ := c.GetAndSet(ks, newPayload(r), ttl(r))
					check(v.(*payload))
					v2, _ := co.GetAndSet(k, newPayload(r), ttl(r))
					check(v2)
				case 7:
					if v, ok := c.GetAndRefresh(ks, ttl(r)); ok {
						check(v.(*payload))
					}
					if v, ok := co.GetAndRefresh(k, ttl(r)); ok {
						check(v)
					}
				case 8:
					v, _ := c.GetOrCompute(ks, func() interface{} { return newPayload(r) }, ttl(r))
					check(v.(*payload))
					v2, _ := co.GetOrCompute(k, func() *payload { return newPayload(r) }, ttl(r))
					check(v2)
				case 9:
					c.Compute(ks, func(old interface{}, loaded bool) (interface{}, bool) {
						if loaded {
							check(old.(*payload))
						}
						return newPayload(r), r.Intn(3) == 0
					}, ttl(r))
					co.Compute(k, func(old *payload, loaded bool) (*payload, bool) { check(old); return newPayload(r), r.Intn(3) == 0 }, ttl(r))
				case 10:
					if v, ok := c.GetAndDelete(ks); ok {
						check(v.(*payload))
					}
					if v, ok := co.GetAndDelete(k); ok {
						check(v)
					}
				case 11:
					c.Delete(ks)
					co.Delete(k)
					cd.Delete(ks)
				case 12:
					c.DeleteExpired()
					co.DeleteExpired()
				case 13:
					c.Range(func(k string, v interface{}) bool { check(v.(*payload)); return true })
					for _, v := range co.Items() {
						check(v)
					}
				case 14:
					_ = c.Count() + co.Count() + cd.Count()
				case 15:
					c.SetDefaultExpiration(ttl(r))
					co.SetDefaultExpiration(ttl(r))
					_ = c.DefaultExpiration()
				case 16:
					if r.Intn(2) == 0 {
						c.SetEvictedCallback(func(k string, v interface{}) { check(v.(*payload)) })
						co.SetEvictedCallback(nil)
					} else {
						c.SetEvictedCallback(nil)
						co.SetEvictedCallback(func(k int, v *payload) { check(v) })
					}
					_ = c.EvictedCallback()
				case 17:
					if v, _, ok := c.GetWithExpiration(ks); ok {
						check(v.(*payload))
					}
				case 18:
					if r.Intn(40) == 0 {
						c.Clear()
						co.Clear()
					}
				case 19:
					time.Sleep(time.Duration(r.Intn(300)) * time.Microsecond)
				}
				atomic.AddInt64(&st.Ops, 1)
			}
		}(g)
	}
	wg.Wait()
	runtime.KeepAlive(c)
	runtime.KeepAlive(co)
	runtime.KeepAlive(cd)
}

// ---- lin mode: stamped native histories ----

type linJob struct {
	Scenarios []linScenario `json:"scenarios"`
	Reps      int           `json:"reps"`
}

type linScenario struct {
	Name    string    `json:"name"`
	Cache   *CacheCfg `json:"cache,omitempty"`
	Map     *MapCfg   `json:"map,omitempty"`
	Preload []SeqOp   `json:"preload"`
	Threads [][]SeqOp `json:"threads"`
	Final   []string  `json:"final"`
}

type SeqOp struct {
	Op string `json:"op"`
	K  string `json:"k"`
	V  string `json:"v"`
	D  int64  `json:"d"`
	Fn string `json:"fn"`
	Lo int    `json:"lo"`
	Hi int    `json:"hi"`
}

var stamp int64

type stamped struct {
	s int64
	e *Event
}

func computeFn(name, v string, calls *int, fo *string, fl *bool) func(string, bool) (string, bool) {
	return func(old string, loaded bool) (string, bool) {
		*calls++
		*fo, *fl = old, loaded
		runtime.Gosched()
		switch name {
		case "set":
			return v, false
		case "del":
			return Nil, true
		case "delret":
			return v, true
		case "keep":
			return old, false
		case "toggle":
			if loaded {
				return Nil, true
			}
			return v, false
		case "setifabsent":
			if loaded {
				return old, false
			}
			return v, false
		}
		panic("unknown compute fn " + name)
	}
}

func doMapCall(m MapAPI, t int, op SeqOp, out *[]stamped) {
	ce := &Event{Ev: "call", T: t, Op: op.Op, K: op.K, V: op.V, Fn: op.Fn, Rv: Nil}
	*out = append(*out, stamped{atomic.AddInt64(&stamp, 1), ce})
	e := &Event{Ev: "ret", T: t, Op: op.Op, K: op.K, Rv: Nil, Fo: Nil}
	switch op.Op {
	case "Load":
		e.Rv, e.Ok = m.Load(op.K)
	case "Store":
		m.Store(op.K, op.V)
	case "LoadOrStore":
		e.Rv, e.Ok = m.LoadOrStore(op.K, op.V)
	case "LoadAndStore":
		e.Rv, e.Ok = m.LoadAndStore(op.K, op.V)
	case "LoadOrCompute":
		e.Rv, e.Ok = m.LoadOrCompute(op.K, func() string { e.N++; runtime.Gosched(); return op.V })
	case "Compute":
		e.Rv, e.Ok = m.Compute(op.K, computeFn(op.Fn, op.V, &e.N, &e.Fo, &e.Fl))
	case "LoadAndDelete":
		e.Rv, e.Ok = m.LoadAndDelete(op.K)
	case "Delete":
		m.Delete(op.K)
	case "Clear":
		m.Clear()
	case "Size":
		e.X = int64(m.Size())
	default:
		die("lin: unsupported map op %q", op.Op)
	}
	*out = append(*out, stamped{atomic.AddInt64(&stamp, 1), e})
}

func doCacheCall(c CacheAPI, t int, op SeqOp, out *[]stamped) {
	ce := &Event{Ev: "call", T: t, Op: op.Op, K: op.K, V: op.V, D: op.D, Fn: op.Fn, Rv: Nil}
	*out = append(*out, stamped{atomic.AddInt64(&stamp, 1), ce})
	e := &Event{Ev: "ret", T: t, Op: op.Op, K: op.K, Rv: Nil, Fo: Nil}
	switch op.Op {
	case "Set":
		c.Set(op.K, op.V, op.D)
	case "SetForever":
		c.SetForever(op.K, op.V)
	case "Get":
		e.Rv, e.Ok = c.Get(op.K)
	case "GetOrSet":
		e.Rv, e.Ok = c.GetOrSet(op.K, op.V, op.D)
	case "GetAndSet":
		e.Rv, e.Ok = c.GetAndSet(op.K, op.V, op.D)
	case "GetOrCompute":
		e.Rv, e.Ok = c.GetOrCompute(op.K, func() string { e.N++; runtime.Gosched(); return op.V }, op.D)
	case "Compute":
		e.Rv, e.Ok = c.Compute(op.K, computeFn(op.Fn, op.V, &e.N, &e.Fo, &e.Fl), op.D)
	case "GetAndDelete":
		e.Rv, e.Ok = c.GetAndDelete(op.K)
	case "Delete":
		c.Delete(op.K)
	case "DeleteExpired":
		c.DeleteExpired()
	case "Clear":
		c.Clear()
	case "Count":
		e.X = int64(c.Count())
	default:
		die("lin: unsupported cache op %q", op.Op)
	}
	*out = append(*out, stamped{atomic.AddInt64(&stamp, 1), e})
}

func runLin(sc *linScenario, reps int, tw *TraceWriter, tr *int, seen map[string]bool) (runs int) {
	for rep := 0; rep < reps; rep++ {
		var m MapAPI
		var c CacheAPI
		hdr := &Event{Ev: "reset", Note: sc.Name, Unit: 1, N: len(sc.Threads), Now: 0}
		if sc.Map != nil {
			m = newMap(*sc.Map)
			hdr.Kind, hdr.KeyType = sc.Map.Kind, sc.Map.KeyType
		} else {
			c = newCache(*sc.Cache, nil)
			hdr.Kind, hdr.KeyType, hdr.Ctor = sc.Cache.Kind, sc.Cache.KeyType, sc.Cache.Ctor
			hdr.HasDef, hdr.Def, hdr.NoExp, hdr.DefExp = sc.Cache.HasDef, sc.Cache.Def, int64(cache.NoExpiration), int64(cache.DefaultExpiration)
			hdr.X = c.DefaultExpiration()
		}
		var pre []stamped
		for _, op := range sc.Preload {
			if m != nil {
				doMapCall(m, 0, op, &pre)
			} else {
				doCacheCall(c, 0, op, &pre)
			}
		}
		outs := make([][]stamped, len(sc.Threads))
		var wg sync.WaitGroup
		start := make(chan struct{})
		for i := range sc.Threads {
			wg.Add(1)
			go func(i int) {
				defer wg.Done()
				<-start
				for _, op := range sc.Threads[i] {
					if m != nil {
						doMapCall(m, i+1, op, &outs[i])
					} else {
						doCacheCall(c, i+1, op, &outs[i])
					}
				}
			}(i)
		}
		close(start)
		wg.Wait()
		var all []stamped
		for _, o := range outs {
			all = append(all, o...)
		}
		sort.Slice(all, func(i, j int) bool { return all[i].s < all[j].s })
		var post []stamped
		for _, k := range sc.Final {
			if m != nil {
				doMapCall(m, 0, SeqOp{Op: "Load", K: k}, &post)
			} else {
				doCacheCall(c, 0, SeqOp{Op: "Get", K: k}, &post)
			}
		}
		evs := []*Event{hdr}
		for _, s := range pre {
			evs = append(evs, s.e)
		}
		evs = append(evs, &Event{Ev: "phase"})
		for _, s := range all {
			evs = append(evs, s.e)
		}
		q := &Event{Ev: "quiesce"}
		if m != nil {
			q.X = int64(m.Size())
			m.Range(func(k, v string) bool { q.Vis = append(q.Vis, KV{K: k, V: v}); return true })
			sort.Slice(q.Vis, func(i, j int) bool { return q.Vis[i].K < q.Vis[j].K })
		} else {
			q.X = int64(c.Count())
		}
		evs = append(evs, q)
		for _, s := range post {
			evs = append(evs, s.e)
		}
		evs = append(evs, &Event{Ev: "end", Note: "ok"})
		runs++
		b, _ := json.Marshal(evs)
		key := string(b)
		if seen[key] {
			continue
		}
		seen[key] = true
		*tr++
		for _, e := range evs {
			e.Tr = *tr
			tw.Write(e)
		}
	}
	return
}

func main() {
	if len(os.Args) < 2 {
		die("usage: raceharness <stress|lin|info> ...")
	}
	cmd := os.Args[1]
	fs := flag.NewFlagSet(cmd, flag.ExitOnError)
	in := fs.String("in", "", "input JSON")
	out := fs.String("out", "", "output")
	stats := fs.String("stats", "", "stats JSON")
	seed := fs.Int64("seed", 1, "seed")
	programs := fs.Int("programs", 8, "stress programs")
	ops := fs.Int("ops", 3000, "ops per goroutine")
	fs.Parse(os.Args[2:])
	switch cmd {
	case "info":
		json.NewEncoder(os.Stdout).Encode(map[string]interface{}{"NoExpiration": int64(cache.NoExpiration), "DefaultExpiration": int64(cache.DefaultExpiration), "access": false})
	case "stress":
		st := &stressStats{}
		r := rand.New(rand.NewSource(*seed))
		for p := 0; p < *programs; p++ {
			g := []int{2, 3, 4, 8, 16, 64}[r.Intn(6)]
			space := []int{3, 8, 64, 3000}[r.Intn(4)]
			n := *ops
			if g >= 16 {
				n = n / 4
			}
			if p%2 == 0 {
				stressMaps(*seed*100+int64(p), g, n, space, st)
			} else {
				stressCaches(*seed*100+int64(p), g, n, space, st)
			}
			st.Programs++
		}
		st.Corrupt = atomic.LoadInt64(&corrupt)
		if *stats != "" {
			b, _ := json.Marshal(st)
			os.WriteFile(*stats, b, 0o644)
		}
	case "lin":
		var job linJob
		b, err := os.ReadFile(*in)
		if err != nil {
			die("%v", err)
		}
		if err := json.Unmarshal(b, &job); err != nil {
			die("%v", err)
		}
		tw := NewTraceWriter(*out)
		tr := 0
		total := 0
		for i := range job.Scenarios {
			seen := map[string]bool{}
			total += runLin(&job.Scenarios[i], job.Reps, tw, &tr, seen)
		}
		tw.Close()
		if *stats != "" {
			b, _ := json.Marshal(map[string]int{"runs": total, "distinct": tr})
			os.WriteFile(*stats, b, 0o644)
		}
	default:
		die("unknown command %q", cmd)
	}
}

// Package vatomic mirrors sync/atomic; every operation is a scheduling point
// (vsched.Point) followed by the real atomic operation.
package vatomic

import (
	"sync/atomic"
	"unsafe"

	"github.com/fufuok/cache/zzverif/vsched"
)

// Trace, when non-nil, is called after each operation with its kind, address
// and the value read/written (as uint64; pointers as their address) and, for
// CAS, whether it succeeded. Used for atomic-level trace conformance.
var Trace func(kind vsched.Kind, addr unsafe.Pointer, val uint64, ok bool)

func tr(kind vsched.Kind, addr unsafe.Pointer, val uint64, ok bool) {
	vsched.After(ok)
	if Trace != nil && vsched.Active() {
		Trace(kind, addr, val, ok)
	}
}

func LoadInt32(addr *int32) int32 {
	vsched.Point(vsched.KLoad, unsafe.Pointer(addr))
	v := atomic.LoadInt32(addr)
	tr(vsched.KLoad, unsafe.Pointer(addr), uint64(v), true)
	return v
}

func StoreInt32(addr *int32, val int32) {
	vsched.Point(vsched.KStore, unsafe.Pointer(addr))
	atomic.StoreInt32(addr, val)
	tr(vsched.KStore, unsafe.Pointer(addr), uint64(val), true)
}

func SwapInt32(addr *int32, new int32) int32 {
	vsched.Point(vsched.KSwap, unsafe.Pointer(addr))
	v := atomic.SwapInt32(addr, new)
	tr(vsched.KSwap, unsafe.Pointer(addr), uint64(new), true)
	return v
}

func CompareAndSwapInt32(addr *int32, old, new int32) bool {
	vsched.Point(vsched.KCAS, unsafe.Pointer(addr))
	ok := atomic.CompareAndSwapInt32(addr, old, new)
	tr(vsched.KCAS, unsafe.Pointer(addr), uint64(new), ok)
	return ok
}

func AddInt32(addr *int32, delta int32) int32 {
	vsched.Point(vsched.KAdd, unsafe.Pointer(addr))
	v := atomic.AddInt32(addr, delta)
	tr(vsched.KAdd, unsafe.Pointer(addr), uint64(v), true)
	return v
}

func AndInt32(addr *int32, mask int32) int32 {
	vsched.Point(vsched.KAdd, unsafe.Pointer(addr))
	return atomic.AndInt32(addr, mask)
}

func OrInt32(addr *int32, mask int32) int32 {
	vsched.Point(vsched.KAdd, unsafe.Pointer(addr))
	return atomic.OrInt32(addr, mask)
}

// Int32 mirrors atomic.Int32.
type Int32 struct{ v int32 }

func (x *Int32) Load() int32                        { return LoadInt32(&x.v) }
func (x *Int32) Store(val int32)                    { StoreInt32(&x.v, val) }
func (x *Int32) Swap(new int32) int32               { return SwapInt32(&x.v, new) }
func (x *Int32) CompareAndSwap(old, new int32) bool { return CompareAndSwapInt32(&x.v, old, new) }
func (x *Int32) Add(delta int32) int32              { return AddInt32(&x.v, delta) }
func (x *Int32) And(mask int32) int32               { return AndInt32(&x.v, mask) }
func (x *Int32) Or(mask int32) int32                { return OrInt32(&x.v, mask) }

func LoadInt64(addr *int64) int64 {
	vsched.Point(vsched.KLoad, unsafe.Pointer(addr))
	v := atomic.LoadInt64(addr)
	tr(vsched.KLoad, unsafe.Pointer(addr), uint64(v), true)
	return v
}

func StoreInt64(addr *int64, val int64) {
	vsched.Point(vsched.KStore, unsafe.Pointer(addr))
	atomic.StoreInt64(addr, val)
	tr(vsched.KStore, unsafe.Pointer(addr), uint64(val), true)
}

func SwapInt64(addr *int64, new int64) int64 {
	vsched.Point(vsched.KSwap, unsafe.Pointer(addr))
	v := atomic.SwapInt64(addr, new)
	tr(vsched.KSwap, unsafe.Pointer(addr), uint64(new), true)
	return v
}

func CompareAndSwapInt64(addr *int64, old, new int64) bool {
	vsched.Point(vsched.KCAS, unsafe.Pointer(addr))
	ok := atomic.CompareAndSwapInt64(addr, old, new)
	tr(vsched.KCAS, unsafe.Pointer(addr), uint64(new), ok)
	return ok
}

func AddInt64(addr *int64, delta int64) int64 {
	vsched.Point(vsched.KAdd, unsafe.Pointer(addr))
	v := atomic.AddInt64(addr, delta)
	tr(vsched.KAdd, unsafe.Pointer(addr), uint64(v), true)
	return v
}

func AndInt64(addr *int64, mask int64) int64 {
	vsched.Point(vsched.KAdd, unsafe.Pointer(addr))
	return atomic.AndInt64(addr, mask)
}

func OrInt64(addr *int64, mask int64) int64 {
	vsched.Point(vsched.KAdd, unsafe.Pointer(addr))
	return atomic.OrInt64(addr, mask)
}

// Int64 mirrors atomic.Int64.
type Int64 struct{ v int64 }

func (x *Int64) Load() int64                        { return LoadInt64(&x.v) }
func (x *Int64) Store(val int64)                    { StoreInt64(&x.v, val) }
func (x *Int64) Swap(new int64) int64               { return SwapInt64(&x.v, new) }
func (x *Int64) CompareAndSwap(old, new int64) bool { return CompareAndSwapInt64(&x.v, old, new) }
func (x *Int64) Add(delta int64) int64              { return AddInt64(&x.v, delta) }
func (x *Int64) And(mask int64) int64               { return AndInt64(&x.v, mask) }
func (x *Int64) Or(mask int64) int64                { return OrInt64(&x.v, mask) }

func LoadUint32(addr *uint32) uint32 {
	vsched.Point(vsched.KLoad, unsafe.Pointer(addr))
	v := atomic.LoadUint32(addr)
	tr(vsched.KLoad, unsafe.Pointer(addr), uint64(v), true)
	return v
}

func StoreUint32(addr *uint32, val uint32) {
	vsched.Point(vsched.KStore, unsafe.Pointer(addr))
	atomic.StoreUint32(addr, val)
	tr(vsched.KStore, unsafe.Pointer(addr), uint64(val), true)
}

func SwapUint32(addr *uint32, new uint32) uint32 {
	vsched.Point(vsched.KSwap, unsafe.Pointer(addr))
	v := atomic.SwapUint32(addr, new)
	tr(vsched.KSwap, unsafe.Pointer(addr), uint64(new), true)
	return v
}

func CompareAndSwapUint32(addr *uint32, old, new uint32) bool {
	vsched.Point(vsched.KCAS, unsafe.Pointer(addr))
	ok := atomic.CompareAndSwapUint32(addr, old, new)
	tr(vsched.KCAS, unsafe.Pointer(addr), uint64(new), ok)
	return ok
}

func AddUint32(addr *uint32, delta uint32) uint32 {
	vsched.Point(vsched.KAdd, unsafe.Pointer(addr))
	v := atomic.AddUint32(addr, delta)
	tr(vsched.KAdd, unsafe.Pointer(addr), uint64(v), true)
	return v
}

func AndUint32(addr *uint32, mask uint32) uint32 {
	vsched.Point(vsched.KAdd, unsafe.Pointer(addr))
	return atomic.AndUint32(addr, mask)
}

func OrUint32(addr *uint32, mask uint32) uint32 {
	vsched.Point(vsched.KAdd, unsafe.Pointer(addr))
	return atomic.OrUint32(addr, mask)
}

// Uint32 mirrors atomic.Uint32.
type Uint32 struct{ v uint32 }

func (x *Uint32) Load() uint32                        { return LoadUint32(&x.v) }
func (x *Uint32) Store(val uint32)                    { StoreUint32(&x.v, val) }
func (x *Uint32) Swap(new uint32) uint32              { return SwapUint32(&x.v, new) }
func (x *Uint32) CompareAndSwap(old, new uint32) bool { return CompareAndSwapUint32(&x.v, old, new) }
func (x *Uint32) Add(delta uint32) uint32             { return AddUint32(&x.v, delta) }
func (x *Uint32) And(mask uint32) uint32              { return AndUint32(&x.v, mask) }
func (x *Uint32) Or(mask uint32) uint32               { return OrUint32(&x.v, mask) }

func LoadUint64(addr *uint64) uint64 {
	vsched.Point(vsched.KLoad, unsafe.Pointer(addr))
	v := atomic.LoadUint64(addr)
	tr(vsched.KLoad, unsafe.Pointer(addr), uint64(v), true)
	return v
}

func StoreUint64(addr *uint64, val uint64) {
	vsched.Point(vsched.KStore, unsafe.Pointer(addr))
	atomic.StoreUint64(addr, val)
	tr(vsched.KStore, unsafe.Pointer(addr), uint64(val), true)
}

func SwapUint64(addr *uint64, new uint64) uint64 {
	vsched.Point(vsched.KSwap, unsafe.Pointer(addr))
	v := atomic.SwapUint64(addr, new)
	tr(vsched.KSwap, unsafe.Pointer(addr), uint64(new), true)
	return v
}

func CompareAndSwapUint64(addr *uint64, old, new uint64) bool {
	vsched.Point(vsched.KCAS, unsafe.Pointer(addr))
	ok := atomic.CompareAndSwapUint64(addr, old, new)
	tr(vsched.KCAS, unsafe.Pointer(addr), uint64(new), ok)
	return ok
}

func AddUint64(addr *uint64, delta uint64) uint64 {
	vsched.Point(vsched.KAdd, unsafe.Pointer(addr))
	v := atomic.AddUint64(addr, delta)
	tr(vsched.KAdd, unsafe.Pointer(addr), uint64(v), true)
	return v
}

func AndUint64(addr *uint64, mask uint64) uint64 {
	vsched.Point(vsched.KAdd, unsafe.Pointer(addr))
	return atomic.AndUint64(addr, mask)
}

func OrUint64(addr *uint64, mask uint64) uint64 {
	vsched.Point(vsched.KAdd, unsafe.Pointer(addr))
	return atomic.OrUint64(addr, mask)
}

// Uint64 mirrors atomic.Uint64.
type Uint64 struct{ v uint64 }

func (x *Uint64) Load() uint64                        { return LoadUint64(&x.v) }
func (x *Uint64) Store(val uint64)                    { StoreUint64(&x.v, val) }
func (x *Uint64) Swap(new uint64) uint64              { return SwapUint64(&x.v, new) }
func (x *Uint64) CompareAndSwap(old, new uint64) bool { return CompareAndSwapUint64(&x.v, old, new) }
func (x *Uint64) Add(delta uint64) uint64             { return AddUint64(&x.v, delta) }
func (x *Uint64) And(mask uint64) uint64              { return AndUint64(&x.v, mask) }
func (x *Uint64) Or(mask uint64) uint64               { return OrUint64(&x.v, mask) }

func LoadUintptr(addr *uintptr) uintptr {
	vsched.Point(vsched.KLoad, unsafe.Pointer(addr))
	v := atomic.LoadUintptr(addr)
	tr(vsched.KLoad, unsafe.Pointer(addr), uint64(v), true)
	return v
}

func StoreUintptr(addr *uintptr, val uintptr) {
	vsched.Point(vsched.KStore, unsafe.Pointer(addr))
	atomic.StoreUintptr(addr, val)
	tr(vsched.KStore, unsafe.Pointer(addr), uint64(val), true)
}

func SwapUintptr(addr *uintptr, new uintptr) uintptr {
	vsched.Point(vsched.KSwap, unsafe.Pointer(addr))
	v := atomic.SwapUintptr(addr, new)
	tr(vsched.KSwap, unsafe.Pointer(addr), uint64(new), true)
	return v
}

func CompareAndSwapUintptr(addr *uintptr, old, new uintptr) bool {
	vsched.Point(vsched.KCAS, unsafe.Pointer(addr))
	ok := atomic.CompareAndSwapUintptr(addr, old, new)
	tr(vsched.KCAS, unsafe.Pointer(addr), uint64(new), ok)
	return ok
}

func AddUintptr(addr *uintptr, delta uintptr) uintptr {
	vsched.Point(vsched.KAdd, unsafe.Pointer(addr))
	v := atomic.AddUintptr(addr, delta)
	tr(vsched.KAdd, unsafe.Pointer(addr), uint64(v), true)
	return v
}

func AndUintptr(addr *uintptr, mask uintptr) uintptr {
	vsched.Point(vsched.KAdd, unsafe.Pointer(addr))
	return atomic.AndUintptr(addr, mask)
}

func OrUintptr(addr *uintptr, mask uintptr) uintptr {
	vsched.Point(vsched.KAdd, unsafe.Pointer(addr))
	return atomic.OrUintptr(addr, mask)
}

// Uintptr mirrors atomic.Uintptr.
type Uintptr struct{ v uintptr }

func (x *Uintptr) Load() uintptr                        { return LoadUintptr(&x.v) }
func (x *Uintptr) Store(val uintptr)                    { StoreUintptr(&x.v, val) }
func (x *Uintptr) Swap(new uintptr) uintptr             { return SwapUintptr(&x.v, new) }
func (x *Uintptr) CompareAndSwap(old, new uintptr) bool { return CompareAndSwapUintptr(&x.v, old, new) }
func (x *Uintptr) Add(delta uintptr) uintptr            { return AddUintptr(&x.v, delta) }
func (x *Uintptr) And(mask uintptr) uintptr             { return AndUintptr(&x.v, mask) }
func (x *Uintptr) Or(mask uintptr) uintptr              { return OrUintptr(&x.v, mask) }

func LoadPointer(addr *unsafe.Pointer) unsafe.Pointer {
	vsched.Point(vsched.KLoad, unsafe.Pointer(addr))
	v := atomic.LoadPointer(addr)
	tr(vsched.KLoad, unsafe.Pointer(addr), uint64(uintptr(v)), true)
	return v
}

func StorePointer(addr *unsafe.Pointer, val unsafe.Pointer) {
	vsched.Point(vsched.KStore, unsafe.Pointer(addr))
	atomic.StorePointer(addr, val)
	tr(vsched.KStore, unsafe.Pointer(addr), uint64(uintptr(val)), true)
}

func SwapPointer(addr *unsafe.Pointer, new unsafe.Pointer) unsafe.Pointer {
	vsched.Point(vsched.KSwap, unsafe.Pointer(addr))
	v := atomic.SwapPointer(addr, new)
	tr(vsched.KSwap, unsafe.Pointer(addr), uint64(uintptr(new)), true)
	return v
}

func CompareAndSwapPointer(addr *unsafe.Pointer, old, new unsafe.Pointer) bool {
	vsched.Point(vsched.KCAS, unsafe.Pointer(addr))
	ok := atomic.CompareAndSwapPointer(addr, old, new)
	tr(vsched.KCAS, unsafe.Pointer(addr), uint64(uintptr(new)), ok)
	return ok
}

// Value mirrors atomic.Value.
type Value struct{ v atomic.Value }

func (x *Value) Load() interface{} {
	vsched.Point(vsched.KLoad, unsafe.Pointer(x))
	return x.v.Load()
}

func (x *Value) Store(val interface{}) {
	vsched.Point(vsched.KStore, unsafe.Pointer(x))
	x.v.Store(val)
}

func (x *Value) Swap(new interface{}) interface{} {
	vsched.Point(vsched.KSwap, unsafe.Pointer(x))
	return x.v.Swap(new)
}

func (x *Value) CompareAndSwap(old, new interface{}) bool {
	vsched.Point(vsched.KCAS, unsafe.Pointer(x))
	return x.v.CompareAndSwap(old, new)
}

// Bool mirrors atomic.Bool.
type Bool struct{ v atomic.Bool }

func (x *Bool) Load() bool {
	vsched.Point(vsched.KLoad, unsafe.Pointer(x))
	return x.v.Load()
}
func (x *Bool) Store(val bool) {
	vsched.Point(vsched.KStore, unsafe.Pointer(x))
	x.v.Store(val)
}
func (x *Bool) Swap(new bool) bool {
	vsched.Point(vsched.KSwap, unsafe.Pointer(x))
	return x.v.Swap(new)
}
func (x *Bool) CompareAndSwap(old, new bool) bool {
	vsched.Point(vsched.KCAS, unsafe.Pointer(x))
	return x.v.CompareAndSwap(old, new)
}

// Pointer mirrors atomic.Pointer[T].
type Pointer[T any] struct{ v atomic.Pointer[T] }

func (x *Pointer[T]) Load() *T {
	vsched.Point(vsched.KLoad, unsafe.Pointer(x))
	return x.v.Load()
}
func (x *Pointer[T]) Store(val *T) {
	vsched.Point(vsched.KStore, unsafe.Pointer(x))
	x.v.Store(val)
}
func (x *Pointer[T]) Swap(new *T) *T {
	vsched.Point(vsched.KSwap, unsafe.Pointer(x))
	return x.v.Swap(new)
}
func (x *Pointer[T]) CompareAndSwap(old, new *T) bool {
	vsched.Point(vsched.KCAS, unsafe.Pointer(x))
	return x.v.CompareAndSwap(old, new)
}

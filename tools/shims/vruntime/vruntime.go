// Package vruntime mirrors the parts of package runtime used by the
// repository; Gosched is a scheduling point.
package vruntime

import (
	"runtime"

	"github.com/fufuok/cache/zzverif/vsched"
)

func Gosched() {
	if vsched.Active() {
		vsched.Point(vsched.KGosched, nil)
		return
	}
	runtime.Gosched()
}

// FinalizerHook, when set, observes SetFinalizer calls (C15 lifecycle harness).
var FinalizerHook func(obj interface{})

func SetFinalizer(obj interface{}, finalizer interface{}) {
	if FinalizerHook != nil {
		FinalizerHook(obj)
	}
	runtime.SetFinalizer(obj, finalizer)
}

func GOMAXPROCS(n int) int                         { return runtime.GOMAXPROCS(n) }
func NumCPU() int                                  { return runtime.NumCPU() }
func NumGoroutine() int                            { return runtime.NumGoroutine() }
func GC()                                          { runtime.GC() }
func KeepAlive(x interface{})                      { runtime.KeepAlive(x) }
func Caller(skip int) (uintptr, string, int, bool) { return runtime.Caller(skip + 1) }
func Callers(skip int, pc []uintptr) int           { return runtime.Callers(skip+1, pc) }
func Stack(buf []byte, all bool) int               { return runtime.Stack(buf, all) }
func Goexit()                                      { runtime.Goexit() }
func LockOSThread()                                { runtime.LockOSThread() }
func UnlockOSThread()                              { runtime.UnlockOSThread() }
func ReadMemStats(m *runtime.MemStats)             { runtime.ReadMemStats(m) }

type MemStats = runtime.MemStats
type Frames = runtime.Frames
type Frame = runtime.Frame
type Func = runtime.Func
type Error = runtime.Error

func CallersFrames(c []uintptr) *Frames { return runtime.CallersFrames(c) }
func FuncForPC(pc uintptr) *Func        { return runtime.FuncForPC(pc) }

const (
	GOOS     = runtime.GOOS
	GOARCH   = runtime.GOARCH
	Compiler = runtime.Compiler
)

func Version() string { return runtime.Version() }

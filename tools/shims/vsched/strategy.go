package vsched

import "math/rand"

// defaultChoice: keep running the current thread when it is enabled
// (non-preemptive), otherwise the lowest enabled id.
func defaultChoice(r *Run, en []int) int {
	for _, id := range en {
		if id == r.LastT {
			return id
		}
	}
	return en[0]
}

func contains(en []int, id int) bool {
	for _, x := range en {
		if x == id {
			return true
		}
	}
	return false
}

// ---- replay of a fixed thread-choice list, then default ----

func ReplayPicker(choices []int, misaligned *int) Picker {
	i := 0
	return func(r *Run, en []int) int {
		if i < len(choices) {
			c := choices[i]
			i++
			if contains(en, c) {
				return c
			}
			if misaligned != nil {
				*misaligned++
			}
		}
		return defaultChoice(r, en)
	}
}

// ---- systematic enumeration with a preemption bound (iterative context bounding) ----

type dfsFrame struct {
	enabled  []int
	order    []int   // alternatives in exploration order (default first)
	idx      int     // index into order of the choice taken
	cur      int     // thread that ran before this step
	preempts int     // preemptions used before this step
	curAddr  uintptr // address of the operation the running thread is about to perform (0 = none / always relevant)
}

type DFS struct {
	Bound int
	// StoreOnly restricts preemptions to points where the running thread is about to perform a store-type operation
	// (store, CAS, add, swap, lock, unlock, cond, user function): a much smaller space that still contains the windows
	// "after A published/unlocked x, before A's next write"; the unrestricted enumeration is run as well.
	StoreOnly bool
	// Perm is the priority order of threads for the default (non-preemptive) choice.
	Perm []int
	// Reduce prunes preemptions before operations on addresses that only one thread touched in the run the frame
	// belongs to (such operations commute with everything the other threads do, so preempting there is equivalent to
	// preempting before the thread's next operation on a shared address).
	Reduce  bool
	touched map[uintptr]uint64
	stack   []dfsFrame
	prefix  []int
	Runs    int
	done    bool
}

func NewDFS(bound int) *DFS { return &DFS{Bound: bound} }

func storeType(k Kind) bool {
	switch k {
	case KStore, KCAS, KAdd, KSwap, KLock, KUnlock, KBroadcast, KSignal, KCondWait, KUser, KTryLock:
		return true
	}
	return false
}

func (d *DFS) defaultChoice(r *Run, en []int) int {
	for _, id := range en {
		if id == r.LastT {
			return id
		}
	}
	if len(d.Perm) > 0 {
		for _, p := range d.Perm {
			for _, id := range en {
				if id == p {
					return id
				}
			}
		}
	}
	return en[0]
}

func (d *DFS) cost(f *dfsFrame, choice int) int {
	if f.cur >= 0 && contains(f.enabled, f.cur) && choice != f.cur {
		return 1
	}
	return 0
}

// Picker for the next run. Call Next() after each run; it returns false when
// the space is exhausted.
func (d *DFS) Picker() Picker {
	step := 0
	preempts := 0
	newStack := d.stack[:0:0]
	d.touched = map[uintptr]uint64{}
	return func(r *Run, en []int) int {
		def := d.defaultChoice(r, en)
		order := make([]int, 0, len(en))
		order = append(order, def)
		preemptible := true
		if d.StoreOnly && r.LastT >= 0 && def == r.LastT && !storeType(r.Threads[def].Pending.Kind) {
			preemptible = false // the running thread is about to read: do not branch here
		}
		if preemptible {
			for _, id := range en {
				if id != def {
					order = append(order, id)
				}
			}
		}
		f := dfsFrame{enabled: append([]int(nil), en...), order: order, cur: r.LastT, preempts: preempts}
		if r.LastT >= 0 && contains(en, r.LastT) {
			f.curAddr = r.Threads[r.LastT].Pending.Addr
		}
		if step < len(d.prefix) {
			want := d.prefix[step]
			f.idx = -1
			for i, id := range order {
				if id == want {
					f.idx = i
				}
			}
			if f.idx < 0 {
				// nondeterminism between runs: fall back to default
				f.idx = 0
			}
		}
		choice := f.order[f.idx]
		if a := r.Threads[choice].Pending.Addr; a != 0 {
			d.touched[a] |= 1 << uint(choice)
		}
		preempts += d.cost(&f, choice)
		newStack = append(newStack, f)
		d.stack = newStack
		step++
		return choice
	}
}

// Next prepares the prefix of the next schedule; false when exhausted.
func (d *DFS) Next() bool {
	d.Runs++
	for i := len(d.stack) - 1; i >= 0; i-- {
		f := &d.stack[i]
		for j := f.idx + 1; j < len(f.order); j++ {
			if d.Reduce && d.cost(f, f.order[j]) == 1 && f.curAddr != 0 {
				if m := d.touched[f.curAddr]; m&(m-1) == 0 {
					continue // the running thread's next operation is on an address nobody else touched in this run
				}
			}
			if f.preempts+d.cost(f, f.order[j]) <= d.Bound {
				d.prefix = d.prefix[:0]
				for q := 0; q < i; q++ {
					d.prefix = append(d.prefix, d.stack[q].order[d.stack[q].idx])
				}
				d.prefix = append(d.prefix, f.order[j])
				d.stack = d.stack[:0]
				return true
			}
		}
	}
	d.done = true
	return false
}

// ---- PCT: random priorities with d priority change points ----

func PCTPicker(rng *rand.Rand, nThreads, depth, estLen int) Picker {
	prio := rng.Perm(nThreads)
	for i := range prio {
		prio[i] += depth + 1
	}
	change := map[int]int{}
	if estLen < 1 {
		estLen = 1
	}
	for i := 0; i < depth; i++ {
		change[rng.Intn(estLen)] = depth - i
	}
	step := 0
	return func(r *Run, en []int) int {
		best := en[0]
		for _, id := range en {
			if prio[id] > prio[best] {
				best = id
			}
		}
		if np, ok := change[step]; ok {
			prio[best] = np
			best = en[0]
			for _, id := range en {
				if prio[id] > prio[best] {
					best = id
				}
			}
		}
		step++
		return best
	}
}

// ---- uniform random walk ----

func RandomPicker(rng *rand.Rand) Picker {
	return func(r *Run, en []int) int { return en[rng.Intn(len(en))] }
}

// Package vsched is a deterministic cooperative scheduler for the
// instrumented scratch copy of fufuok/cache. Virtual threads are ordinary
// goroutines, exactly one of which runs at a time; every shim entry point
// (vatomic, vsync, vruntime.Gosched, harness user functions) calls Point,
// which publishes the operation the thread is about to perform and hands
// control to the controller.
//
// When no controlled run is active every entry point is a cheap pass-through,
// so the same instrumented build also serves sequential and natively parallel
// harness modes.
package vsched

import (
	"fmt"
	"runtime"
	"strings"
	"sync/atomic"
	"unsafe"
)

type Kind uint8

const (
	KStart Kind = iota
	KLoad
	KStore
	KCAS
	KAdd
	KSwap
	KLock
	KUnlock
	KCondWait
	KCondBlocked
	KBroadcast
	KSignal
	KGosched
	KUser
	KTryLock
)

var kindNames = [...]string{"Start", "Load", "Store", "CAS", "Add", "Swap", "Lock", "Unlock", "CondWait", "CondBlocked", "Broadcast", "Signal", "Gosched", "User", "TryLock"}

func (k Kind) String() string { return kindNames[k] }

// Op is the operation a parked thread is about to perform.
type Op struct {
	Kind Kind
	Addr uintptr
	PC   uintptr // caller pc inside repository code (0 unless WantSites)
	PC2  uintptr // its caller
}

type Thread struct {
	ID      int
	resume  chan struct{}
	Pending Op
	Done    bool
	Steps   int
	yielded bool // performed Gosched and nobody else has stepped since
	woken   bool // cond var: broadcast/signal received
	Parked  bool // held by the scenario (solo strategy)
	Panic   interface{}
}

// Outcome of a controlled run.
const (
	OK       = "ok"
	Deadlock = "deadlock"
	Budget   = "budget"
	Panicked = "panic"
)

var (
	active    int32 // 1 while a controlled run is in progress
	cur       *Thread
	ctl       chan *Thread
	holder    map[uintptr]*Thread   // mutex address -> owning thread
	condWait  map[uintptr][]*Thread // cond address -> waiters
	WantSites bool
	// OnStep, when set, is called by the controller after each step with the
	// thread and the operation it just performed (used for atomic-level traces).
	OnStep func(t *Thread, op Op)
)

func Active() bool { return atomic.LoadInt32(&active) == 1 }

// Cur returns the id of the running virtual thread, or -1.
func Cur() int {
	if !Active() || cur == nil {
		return -1
	}
	return cur.ID
}

// Point is a scheduling point: the calling virtual thread is about to perform
// an operation of the given kind on addr.
func Point(k Kind, addr unsafe.Pointer) {
	if atomic.LoadInt32(&active) == 0 {
		return
	}
	t := cur
	t.Pending = Op{Kind: k, Addr: uintptr(addr)}
	if WantSites {
		var pcs [2]uintptr
		// 0 = Callers, 1 = Point, 2 = shim function, 3 = repository code, 4 = its caller
		if n := runtime.Callers(3, pcs[:]); n >= 1 {
			t.Pending.PC = pcs[0]
			if n == 2 {
				t.Pending.PC2 = pcs[1]
			}
		}
	}
	ctl <- t
	<-t.resume
}

// After is called by the shims, in the running thread, right after the operation published by the last Point was
// performed (ok = success of a CAS / TryLock). StepHook records atomic-level traces.
var StepHook func(t int, op Op, ok bool)

func After(ok bool) {
	if StepHook != nil && atomic.LoadInt32(&active) == 1 && cur != nil {
		StepHook(cur.ID, cur.Pending, ok)
	}
}

// UserPoint is a scheduling point inside a harness-supplied user function.
func UserPoint() { Point(KUser, nil) }

// ---- mutex / cond bookkeeping used by vsync (active mode only) ----

func MutexAcquired(addr unsafe.Pointer) { holder[uintptr(addr)] = cur }
func MutexReleased(addr unsafe.Pointer) { delete(holder, uintptr(addr)) }
func MutexHeld(addr unsafe.Pointer) bool {
	_, ok := holder[uintptr(addr)]
	return ok
}

// CondEnqueue registers the running thread as a waiter of the cond at addr.
func CondEnqueue(addr unsafe.Pointer) {
	cur.woken = false
	condWait[uintptr(addr)] = append(condWait[uintptr(addr)], cur)
}

func CondBroadcast(addr unsafe.Pointer) {
	for _, t := range condWait[uintptr(addr)] {
		t.woken = true
	}
	delete(condWait, uintptr(addr))
}

func CondSignal(addr unsafe.Pointer) {
	w := condWait[uintptr(addr)]
	if len(w) == 0 {
		return
	}
	w[0].woken = true
	if len(w) == 1 {
		delete(condWait, uintptr(addr))
	} else {
		condWait[uintptr(addr)] = w[1:]
	}
}

// ---- controller ----

// Step records one scheduling decision.
type Step struct {
	T       int   // chosen thread
	Enabled []int // enabled threads at this point (ascending)
	Cur     int   // thread that ran the previous step (-1 at start)
	Op      Op    // operation performed by the chosen thread
}

// Run is the state of one controlled execution.
type Run struct {
	Threads  []*Thread
	Steps    []Step
	NSteps   int
	Outcome  string
	Stuck    []int // unfinished threads at deadlock/budget
	KeepLog  bool
	LastT    int
	PanicVal interface{}
}

// Picker chooses the next thread among enabled (never empty).
type Picker func(r *Run, enabled []int) int

func (r *Run) enabled() []int {
	var en, yl []int
	for _, t := range r.Threads {
		if t.Done || t.Parked {
			continue
		}
		switch t.Pending.Kind {
		case KLock:
			if _, held := holder[t.Pending.Addr]; held {
				continue
			}
		case KCondBlocked:
			if !t.woken {
				continue
			}
		}
		if t.yielded {
			yl = append(yl, t.ID)
		} else {
			en = append(en, t.ID)
		}
	}
	if len(en) == 0 {
		return yl // only spinners left: let them spin (budget bounds it)
	}
	return en
}

// Execute runs fns as virtual threads under pick until all are done, a
// deadlock is observed, or maxSteps scheduling steps were taken.
// ownBudget > 0 bounds the steps of any single thread.
func Execute(fns []func(), pick Picker, maxSteps int, keepLog bool) *Run {
	return ExecuteParked(fns, pick, maxSteps, keepLog, nil)
}

// ExecuteParked is Execute with a hook called before every decision; the
// hook may park/unpark threads (solo strategy) by setting Thread.Parked.
func ExecuteParked(fns []func(), pick Picker, maxSteps int, keepLog bool, before func(r *Run)) *Run {
	if Active() {
		panic("vsched: nested controlled run")
	}
	r := &Run{KeepLog: keepLog, LastT: -1}
	ctl = make(chan *Thread)
	holder = map[uintptr]*Thread{}
	condWait = map[uintptr][]*Thread{}
	for i, fn := range fns {
		t := &Thread{ID: i, resume: make(chan struct{}), Pending: Op{Kind: KStart}}
		r.Threads = append(r.Threads, t)
		fn := fn
		go func() {
			<-t.resume
			defer func() {
				if p := recover(); p != nil {
					t.Panic = p
				}
				t.Done = true
				ctl <- t
			}()
			fn()
		}()
	}
	atomic.StoreInt32(&active, 1)
	defer atomic.StoreInt32(&active, 0)
	for {
		if before != nil {
			before(r)
		}
		all := true
		for _, t := range r.Threads {
			if !t.Done {
				all = false
			}
		}
		if all {
			r.Outcome = OK
			break
		}
		en := r.enabled()
		if len(en) == 0 {
			r.Outcome = Deadlock
			break
		}
		if r.NSteps >= maxSteps {
			r.Outcome = Budget
			break
		}
		id := pick(r, en)
		t := r.Threads[id]
		op := t.Pending
		if keepLog {
			r.Steps = append(r.Steps, Step{T: id, Enabled: en, Cur: r.LastT, Op: op})
		}
		r.NSteps++
		t.Steps++
		cur = t
		t.resume <- struct{}{}
		tt := <-ctl
		if tt != t {
			panic(fmt.Sprintf("vsched: thread %d yielded while %d was running (unregistered goroutine calling shims?)", tt.ID, t.ID))
		}
		// fair-yield rule: a thread that called Gosched (a spin loop) stays
		// deprioritised until some other thread performs a store-type
		// operation, i.e. until the condition it spins on can have changed.
		switch op.Kind {
		case KStore, KCAS, KAdd, KSwap, KLock, KUnlock, KBroadcast, KSignal, KCondWait, KTryLock:
			// (the thread's own flag is cleared too: a spinner that finally acquired its lock is no longer
			// spinning; leaving it set let a higher-priority spinner starve the new lock holder under PCT)
			for _, o := range r.Threads {
				o.yielded = false
			}
		}
		if op.Kind == KGosched {
			t.yielded = true
		}
		r.LastT = id
		if OnStep != nil {
			OnStep(t, op)
		}
		if t.Panic != nil {
			r.Outcome = Panicked
			r.PanicVal = t.Panic
			break
		}
	}
	if r.Outcome != OK {
		for _, t := range r.Threads {
			if !t.Done {
				r.Stuck = append(r.Stuck, t.ID)
			}
		}
		// Leave stuck goroutines parked forever; they hold no OS resources
		// besides their stacks. The harness exits the process after reporting.
	}
	cur = nil
	return r
}

// SiteOf renders a pc recorded in Op.PC as file:line.
func SiteOf(pc uintptr) string {
	if pc == 0 {
		return ""
	}
	fr, _ := runtime.CallersFrames([]uintptr{pc}).Next()
	f := fr.File
	// keep the path relative to the module root
	for i := len(f) - 1; i >= 0; i-- {
		if f[i] == '/' {
			j := i - 1
			for j >= 0 && f[j] != '/' {
				j--
			}
			if f[j+1:i] == "xsync" {
				return "internal/xsync/" + f[i+1:] + ":" + itoa(fr.Line)
			}
			return f[i+1:] + ":" + itoa(fr.Line)
		}
	}
	return f + ":" + itoa(fr.Line)
}

func itoa(n int) string { return fmt.Sprint(n) }

// FuncOf renders the function containing pc as a short name ("doCompute", "copyBucketOf", "Wait").
func FuncOf(pc uintptr) string {
	if pc == 0 {
		return ""
	}
	fr, _ := runtime.CallersFrames([]uintptr{pc}).Next()
	f := fr.Function
	// drop type-argument lists: pkg.(*MapOf[...]).doCompute -> pkg.(*MapOf).doCompute
	for {
		i := strings.IndexByte(f, '[')
		if i < 0 {
			break
		}
		depth, j := 0, i
		for ; j < len(f); j++ {
			if f[j] == '[' {
				depth++
			} else if f[j] == ']' {
				depth--
				if depth == 0 {
					break
				}
			}
		}
		if j >= len(f) {
			f = f[:i]
			break
		}
		f = f[:i] + f[j+1:]
	}
	if i := strings.LastIndexByte(f, '.'); i >= 0 {
		f = f[i+1:]
	}
	return f
}

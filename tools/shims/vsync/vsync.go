// Package vsync mirrors package sync for the instrumented scratch copy.
// Mutex and Cond are scheduler-aware; everything else is re-exported.
package vsync

import (
	"sync"
	"unsafe"

	"github.com/fufuok/cache/zzverif/vsched"
)

type (
	Locker    = sync.Locker
	WaitGroup = sync.WaitGroup
	Once      = sync.Once
	Map       = sync.Map
	Pool      = sync.Pool
)

// Mutex must stay exactly as large as sync.Mutex (the repository derives
// padding from unsafe.Sizeof of structs that embed one); scheduler state is
// kept in a side table keyed by address.
type Mutex struct{ mu sync.Mutex }

func (m *Mutex) Lock() {
	if vsched.Active() {
		vsched.Point(vsched.KLock, unsafe.Pointer(m))
		m.mu.Lock()
		vsched.MutexAcquired(unsafe.Pointer(m))
		vsched.After(true)
		return
	}
	m.mu.Lock()
}

func (m *Mutex) Unlock() {
	if vsched.Active() {
		vsched.Point(vsched.KUnlock, unsafe.Pointer(m))
		vsched.MutexReleased(unsafe.Pointer(m))
		m.mu.Unlock()
		vsched.After(true)
		return
	}
	m.mu.Unlock()
}

func (m *Mutex) TryLock() bool {
	if vsched.Active() {
		vsched.Point(vsched.KTryLock, unsafe.Pointer(m))
		if m.mu.TryLock() {
			vsched.MutexAcquired(unsafe.Pointer(m))
			return true
		}
		return false
	}
	return m.mu.TryLock()
}

// RWMutex: exclusive and shared modes are both modelled as exclusive in
// controlled runs (the repository does not use RWMutex today).
type RWMutex struct{ mu sync.RWMutex }

func (m *RWMutex) Lock() {
	if vsched.Active() {
		vsched.Point(vsched.KLock, unsafe.Pointer(m))
		m.mu.Lock()
		vsched.MutexAcquired(unsafe.Pointer(m))
		return
	}
	m.mu.Lock()
}
func (m *RWMutex) Unlock() {
	if vsched.Active() {
		vsched.Point(vsched.KUnlock, unsafe.Pointer(m))
		vsched.MutexReleased(unsafe.Pointer(m))
		m.mu.Unlock()
		return
	}
	m.mu.Unlock()
}
func (m *RWMutex) RLock() {
	if vsched.Active() {
		vsched.Point(vsched.KLock, unsafe.Pointer(m))
		m.mu.Lock()
		vsched.MutexAcquired(unsafe.Pointer(m))
		return
	}
	m.mu.RLock()
}
func (m *RWMutex) RUnlock() {
	if vsched.Active() {
		vsched.Point(vsched.KUnlock, unsafe.Pointer(m))
		vsched.MutexReleased(unsafe.Pointer(m))
		m.mu.Unlock()
		return
	}
	m.mu.RUnlock()
}
func (m *RWMutex) RLocker() Locker { return (*rlocker)(m) }

type rlocker RWMutex

func (r *rlocker) Lock()   { (*RWMutex)(r).RLock() }
func (r *rlocker) Unlock() { (*RWMutex)(r).RUnlock() }

// Cond may be copied by value before first use (the repository does
// `m.resizeCond = *sync.NewCond(&m.resizeMu)`), so the native condition
// variable is created lazily and scheduler state is keyed by address.
type Cond struct {
	L    Locker
	once sync.Once
	real *sync.Cond
}

func NewCond(l Locker) *Cond { return &Cond{L: l} }

func (c *Cond) native() *sync.Cond {
	c.once.Do(func() { c.real = sync.NewCond(c.L) })
	return c.real
}

func (c *Cond) Wait() {
	if vsched.Active() {
		// Like sync.Cond: enqueue first, then release the lock, so a
		// broadcast issued after the unlock cannot be missed.
		vsched.Point(vsched.KCondWait, unsafe.Pointer(c))
		vsched.CondEnqueue(unsafe.Pointer(c))
		vsched.After(true)
		c.L.Unlock()
		vsched.Point(vsched.KCondBlocked, unsafe.Pointer(c))
		vsched.After(true)
		c.L.Lock()
		return
	}
	c.native().Wait()
}

func (c *Cond) Broadcast() {
	if vsched.Active() {
		vsched.Point(vsched.KBroadcast, unsafe.Pointer(c))
		vsched.CondBroadcast(unsafe.Pointer(c))
		vsched.After(true)
		return
	}
	c.native().Broadcast()
}

func (c *Cond) Signal() {
	if vsched.Active() {
		vsched.Point(vsched.KSignal, unsafe.Pointer(c))
		vsched.CondSignal(unsafe.Pointer(c))
		return
	}
	c.native().Signal()
}

func OnceFunc(f func()) func()                                 { return sync.OnceFunc(f) }
func OnceValue[T any](f func() T) func() T                     { return sync.OnceValue(f) }
func OnceValues[T1, T2 any](f func() (T1, T2)) func() (T1, T2) { return sync.OnceValues(f) }

// Package vtime mirrors package time with a virtual clock: Now, Since, Until,
// tickers and timers follow a clock only the harness advances. Everything
// else is re-exported from package time.
package vtime

import (
	"sync"
	"time"
)

type (
	Duration   = time.Duration
	Time       = time.Time
	Month      = time.Month
	Weekday    = time.Weekday
	Location   = time.Location
	ParseError = time.ParseError
)

const (
	Nanosecond  = time.Nanosecond
	Microsecond = time.Microsecond
	Millisecond = time.Millisecond
	Second      = time.Second
	Minute      = time.Minute
	Hour        = time.Hour

	Layout      = time.Layout
	ANSIC       = time.ANSIC
	UnixDate    = time.UnixDate
	RFC822      = time.RFC822
	RFC1123     = time.RFC1123
	RFC3339     = time.RFC3339
	RFC3339Nano = time.RFC3339Nano
	Kitchen     = time.Kitchen
	DateTime    = time.DateTime
	DateOnly    = time.DateOnly
	TimeOnly    = time.TimeOnly

	January   = time.January
	February  = time.February
	March     = time.March
	April     = time.April
	May       = time.May
	June      = time.June
	July      = time.July
	August    = time.August
	September = time.September
	October   = time.October
	November  = time.November
	December  = time.December

	Sunday    = time.Sunday
	Monday    = time.Monday
	Tuesday   = time.Tuesday
	Wednesday = time.Wednesday
	Thursday  = time.Thursday
	Friday    = time.Friday
	Saturday  = time.Saturday
)

var (
	UTC   = time.UTC
	Local = time.Local
)

func Unix(sec, nsec int64) Time { return time.Unix(sec, nsec) }
func UnixMilli(ms int64) Time   { return time.UnixMilli(ms) }
func UnixMicro(us int64) Time   { return time.UnixMicro(us) }
func Date(y int, m Month, d, h, mi, s, ns int, l *Location) Time {
	return time.Date(y, m, d, h, mi, s, ns, l)
}
func ParseDuration(s string) (Duration, error)    { return time.ParseDuration(s) }
func Parse(layout, value string) (Time, error)    { return time.Parse(layout, value) }
func FixedZone(name string, off int) *Location    { return time.FixedZone(name, off) }
func LoadLocation(name string) (*Location, error) { return time.LoadLocation(name) }

// ---- the virtual clock ----

var (
	mu      sync.Mutex
	vnow    int64 = 1000 // nanoseconds since the Unix epoch
	tickers []*Ticker
	timers  []*Timer
	// NowCalls counts Now() invocations (evidence: the clock shim is live).
	NowCalls int64
)

// Now returns the virtual instant, without a monotonic reading, so that
// Now().Add(d).UnixNano() is exactly vnow+d.
func Now() Time {
	mu.Lock()
	n := vnow
	NowCalls++
	mu.Unlock()
	return time.Unix(0, n)
}

func Since(t Time) Duration { return Now().Sub(t) }
func Until(t Time) Duration { return t.Sub(Now()) }

// VNow is the harness-side reading of the clock.
func VNow() int64 {
	mu.Lock()
	defer mu.Unlock()
	return vnow
}

// Set resets the clock (harness only, between runs).
func Set(n int64) {
	mu.Lock()
	vnow = n
	mu.Unlock()
}

// Advance moves the clock forward and fires due tickers and timers.
func Advance(d int64) {
	mu.Lock()
	vnow += d
	n := vnow
	var fire []func()
	for _, t := range tickers {
		if t.stopped {
			continue
		}
		if n >= t.next {
			for n >= t.next {
				t.next += int64(t.period)
			}
			c := t.c
			fire = append(fire, func() {
				select {
				case c <- time.Unix(0, n):
				default:
				}
			})
			t.Fired++
		}
	}
	for _, t := range timers {
		if t.stopped || t.fired {
			continue
		}
		if n >= t.when {
			t.fired = true
			if t.f != nil {
				f := t.f
				fire = append(fire, func() { go f() })
			} else {
				c := t.c
				fire = append(fire, func() {
					select {
					case c <- time.Unix(0, n):
					default:
					}
				})
			}
		}
	}
	mu.Unlock()
	for _, f := range fire {
		f()
	}
}

// ActiveTickers reports how many tickers are running (C15 evidence).
func ActiveTickers() int {
	mu.Lock()
	defer mu.Unlock()
	n := 0
	for _, t := range tickers {
		if !t.stopped {
			n++
		}
	}
	return n
}

// PendingTicks reports how many fired ticks have not been received yet.
func PendingTicks() int {
	mu.Lock()
	defer mu.Unlock()
	n := 0
	for _, t := range tickers {
		if !t.stopped {
			n += len(t.c)
		}
	}
	return n
}

// TickerPeriods lists the periods of running tickers.
func TickerPeriods() []int64 {
	mu.Lock()
	defer mu.Unlock()
	var r []int64
	for _, t := range tickers {
		if !t.stopped {
			r = append(r, int64(t.period))
		}
	}
	return r
}

// ResetTimers forgets all tickers and timers (harness only, between runs).
func ResetTimers() {
	mu.Lock()
	tickers = nil
	timers = nil
	mu.Unlock()
}

type Ticker struct {
	C       <-chan Time
	c       chan Time
	period  Duration
	next    int64
	stopped bool
	Fired   int
}

func NewTicker(d Duration) *Ticker {
	if d <= 0 {
		panic("non-positive interval for NewTicker")
	}
	c := make(chan Time, 1)
	mu.Lock()
	t := &Ticker{C: c, c: c, period: d, next: vnow + int64(d)}
	tickers = append(tickers, t)
	mu.Unlock()
	return t
}

func (t *Ticker) Stop() {
	mu.Lock()
	t.stopped = true
	mu.Unlock()
}

func (t *Ticker) Reset(d Duration) {
	if d <= 0 {
		panic("non-positive interval for Ticker.Reset")
	}
	mu.Lock()
	t.period = d
	t.next = vnow + int64(d)
	t.stopped = false
	mu.Unlock()
}

func Tick(d Duration) <-chan Time {
	if d <= 0 {
		return nil
	}
	return NewTicker(d).C
}

type Timer struct {
	C       <-chan Time
	c       chan Time
	when    int64
	f       func()
	stopped bool
	fired   bool
}

func NewTimer(d Duration) *Timer {
	c := make(chan Time, 1)
	mu.Lock()
	t := &Timer{C: c, c: c, when: vnow + int64(d)}
	timers = append(timers, t)
	mu.Unlock()
	return t
}

func AfterFunc(d Duration, f func()) *Timer {
	mu.Lock()
	t := &Timer{when: vnow + int64(d), f: f}
	timers = append(timers, t)
	mu.Unlock()
	return t
}

func After(d Duration) <-chan Time { return NewTimer(d).C }

func (t *Timer) Stop() bool {
	mu.Lock()
	defer mu.Unlock()
	was := !t.stopped && !t.fired
	t.stopped = true
	return was
}

func (t *Timer) Reset(d Duration) bool {
	mu.Lock()
	defer mu.Unlock()
	was := !t.stopped && !t.fired
	t.stopped, t.fired = false, false
	t.when = vnow + int64(d)
	return was
}

// Sleep blocks until the virtual clock has advanced by d (polling in real
// time); the repository does not sleep today.
func Sleep(d Duration) {
	if d <= 0 {
		return
	}
	target := VNow() + int64(d)
	for VNow() < target {
		time.Sleep(50 * time.Microsecond)
	}
}

"""Families and driver of the implementation-shaped concurrent cache model (CacheImpl.tla): TLC enumerates every
interleaving of the cache methods over an atomic map and prints every terminal history; the histories are judged by
the same property-level machine (Trace_CacheLin) that judges the real code."""
import json, os, re, shutil

import lib

NOW, NOW0 = 1000, 900
NOEXP, DEFEXP = -2000000000, -1000000000

DEFAULT_SWITCHES = {"DeleteExpiredRevalidates": "TRUE", "LazyDeleteRevalidates": "TRUE", "GetAndDeleteChecksExpiry": "TRUE", "CallbackReadOncePerPass": "TRUE"}
ALTERNATIVES = {
    "DeleteExpiredRevalidates=FALSE": ({"DeleteExpiredRevalidates": "FALSE"}, ["I1-deleteexpired-vs-set", "I2-two-deleteexpired"]),
    "LazyDeleteRevalidates=FALSE": ({"LazyDeleteRevalidates": "FALSE"}, ["I3-lazydelete-vs-set"]),
    "GetAndDeleteChecksExpiry=FALSE": ({"GetAndDeleteChecksExpiry": "FALSE"}, ["I5-removers-expired"]),
}


def C(op, k="", v="", d=0, fn=""):
    return {"op": op, "k": k, "v": v, "d": d, "fn": fn}


def families():
    F = {}
    exp1 = {"k1": ("p1", 950), "k2": ("p2", 1050)}      # k1 expired-uncleaned, k2 live

    def fam(name, preload, menu, cb="cb1", keys=("k1", "k2")):
        F[name] = dict(preload=preload, menu=menu, cb=cb, keys=list(keys))

    fam("I1-deleteexpired-vs-set", exp1, {1: [C("DeleteExpired")], 2: [C("Set", "k1", "a", NOEXP), C("Get", "k1")], 3: [C("Get", "k1"), C("Get", "k2")]})
    fam("I1b-deleteexpired-vs-getorset", exp1, {1: [C("DeleteExpired")], 2: [C("GetOrSet", "k1", "a", 100)], 3: [C("GetAndSet", "k1", "b", 100), C("Get", "k1")]})
    fam("I2-two-deleteexpired", exp1, {1: [C("DeleteExpired")], 2: [C("DeleteExpired")], 3: [C("Delete", "k1")]})
    fam("I2c-deleteexpired-vs-compute", exp1, {1: [C("DeleteExpired")], 2: [C("Compute", "k1", "a", 100, "set")], 3: [C("GetAndRefresh", "k1", d=10), C("Get", "k1")]})
    fam("I3-lazydelete-vs-set", exp1, {1: [C("Get", "k1")], 2: [C("Set", "k1", "a", 100)], 3: [C("GetWithTTL", "k1"), C("GetWithExpiration", "k1")]})
    fam("I4-racers-expired", exp1, {1: [C("GetOrSet", "k1", "a", 100)], 2: [C("GetOrCompute", "k1", "b", 100)], 3: [C("GetAndSet", "k1", "c", 100), C("Get", "k1")]})
    fam("I5-removers-expired", exp1, {1: [C("Delete", "k1")], 2: [C("GetAndDelete", "k1")], 3: [C("Set", "k1", "a", 50), C("GetAndDelete", "k1")]})
    fam("I5b-removers-live", {"k1": ("p1", 1050)}, {1: [C("Delete", "k1")], 2: [C("GetAndDelete", "k1")], 3: [C("Set", "k1", "a", 50), C("GetAndDelete", "k1")]}, keys=("k1",))
    fam("I6-callback-swap", {"k1": ("p1", 1050), "k2": ("p2", 950)}, {1: [C("SetEvictedCallback", fn="cb2")], 2: [C("Delete", "k1")], 3: [C("DeleteExpired")]})
    fam("I8-clear", exp1, {1: [C("Clear")], 2: [C("Set", "k2", "a", 50), C("Get", "k2")], 3: [C("DeleteExpired")]})
    fam("I10-default-swap", {}, {1: [C("SetDefaultExpiration", d=7)], 2: [C("SetDefault", "k1", "a"), C("GetWithExpiration", "k1")], 3: [C("Set", "k2", "b", DEFEXP), C("GetWithTTL", "k2")]})
    return F


def tla_call(c):
    return '[op |-> "%s", k |-> "%s", v |-> "%s", d |-> %s, fn |-> "%s"]' % (c["op"], c["k"], c["v"], "(0 - %d)" % -c["d"] if c["d"] < 0 else c["d"], c["fn"])


def run_family(name, switches=None, timeout=1800):
    f = families()[name]
    sw = dict(DEFAULT_SWITCHES)
    sw.update(switches or {})
    d = lib.mktemp("verif-cimpl-")
    shutil.copy(os.path.join(lib.SPECS, "CacheImpl.tla"), d)
    threads = sorted(f["menu"])
    menu = ""
    for t in threads[:-1]:
        menu += "IF t = %d THEN <<%s>> ELSE " % (t, ", ".join(tla_call(c) for c in f["menu"][t]))
    menu += "<<%s>>" % ", ".join(tla_call(c) for c in f["menu"][threads[-1]])
    pre = " @@ ".join('("%s" :> [v |-> "%s", e |-> %d])' % (k, v, e) for k, (v, e) in f["preload"].items()) or "<<>>"
    txt = "---- MODULE MC_CacheImpl ----\nEXTENDS CacheImpl\n"
    txt += "MenuDef == [t \\in {%s} |-> %s]\nPreDef == %s\nNoExpDef == 0 - 2000000000\nDefExpDef == 0 - 1000000000\n====\n" % (", ".join(str(t) for t in threads), menu, pre)
    open(os.path.join(d, "MC_CacheImpl.tla"), "w").write(txt)
    cfg = "SPECIFICATION Spec\nCONSTANTS\n Threads = {%s}\n Keys = {%s}\n Menu <- MenuDef\n Preload <- PreDef\n Now = %d\n Def0 <- NoExpDef\n Cb0 = \"%s\"\n NoExp <- NoExpDef\n DefExp <- DefExpDef\n" % (
        ", ".join(str(t) for t in threads), ", ".join('"%s"' % k for k in f["keys"]), NOW, f["cb"])
    for k, v in sw.items():
        cfg += " %s = %s\n" % (k, v)
    cfg += ' defaultInitValue = "div"\nINVARIANT Emit\n'
    open(os.path.join(d, "MC_CacheImpl.cfg"), "w").write(cfg)
    r = lib.run_tlc("MC_CacheImpl", workers=lib.NCPU, timeout=timeout, workdir=d, staged=True)
    if not r["ok"]:
        raise lib.Inconclusive("TLC failed on CacheImpl family %s:\n%s" % (name, r["out"][-3000:]))
    hists = {}
    for m in re.finditer(r'<<"HIST", ("(?:[^"\\]|\\.)*")>>', r["out"]):
        s = json.loads(m.group(1))
        hists[s] = json.loads(s)
    r["histories"] = list(hists.values())
    r["family"] = f
    return r


def to_runs(name, f, hists, tr0=0):
    """Turn terminal histories of the model into ndjson runs in the harness' event format."""
    runs = []
    base = {"ev": "", "tr": 0, "t": 0, "op": "", "k": "", "v": "", "d": 0, "fn": "", "rv": "nil", "ok": False, "x": 0, "n": 0, "fo": "nil", "fl": False,
            "c0": 0, "c1": 0, "now": 0, "cb": "", "lo": 0, "hi": 0, "evs": [], "vis": [], "hasphys": False, "phys": [], "note": ""}
    for i, h in enumerate(hists):
        tr = tr0 + i + 1
        lines = [{"ev": "reset", "tr": tr, "kind": "CacheImpl", "keytype": "", "ctor": "model", "hasdef": True, "def": NOEXP, "hasintv": True, "intv": 0,
                  "noexp": NOEXP, "defexp": DEFEXP, "unit": 1, "cb": f["cb"], "now": NOW0, "x": NOEXP, "c1": 0, "n": len(f["menu"]), "note": name}]
        for k, (v, e) in f["preload"].items():
            lines.append(dict(base, ev="call", tr=tr, op="Set", k=k, v=v, d=e - NOW0))
            lines.append(dict(base, ev="ret", tr=tr, op="Set", k=k))
        lines.append(dict(base, ev="call", tr=tr, op="Tick", d=NOW - NOW0))
        lines.append(dict(base, ev="ret", tr=tr, op="Tick"))
        lines.append(dict(base, ev="phase", tr=tr, now=NOW))
        for e in h["hist"]:
            lines.append(dict(base, tr=tr, **e))
        items = h["items"] if isinstance(h["items"], dict) else {}
        phys = [{"k": k, "v": it["v"], "e": it["e"]} for k, it in sorted(items.items())]
        lines.append(dict(base, ev="quiesce", tr=tr, x=len(phys), c1=len(phys), hasphys=True, phys=phys, now=NOW))
        lines.append(dict(base, ev="end", tr=tr, note="ok"))
        runs.append([json.dumps(x) + "\n" for x in lines])
    return runs

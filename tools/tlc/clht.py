"""Scenario families and design switches of the implementation-shaped CLHT specification."""
import os, re

import lib

DEFAULT_SWITCHES = {
    "CheckOrder": '"flag-table"', "ClearLoserRetries": "TRUE", "InsertOrder": '"value-key"', "SnapshotRecheck": "TRUE",
    "CopyLocksBuckets": "TRUE", "PublishBeforeFlagClear": "TRUE", "SizeTarget": '"modified"', "CopyRecounts": "TRUE",
    "FnBeforeRetry": "FALSE", "BroadcastOnResizeEnd": "TRUE", "UnlockOnNewerTable": "TRUE", "ZeroOnAbsentDelete": "TRUE", "RangeSnapshotsTable": "TRUE", "LoadOnMissWaits": "FALSE", "ResizeRereadsTable": "TRUE", "CopySkipsEmptyBuckets": "FALSE", "ClearChecksCounter": "FALSE",
    "ShrinkGiveUpClearsFlag": "TRUE",
}

# alternative value of each switch and the families expected to refute it (vacuity guard + witness generator)
ALTERNATIVES = {
    "CheckOrder=table-flag": ({"CheckOrder": '"table-flag"'}, ["S4-grow", "S5-shrink"]),
    "CheckOrder=flag-only": ({"CheckOrder": '"flag-only"'}, ["S4-grow", "S5-shrink", "S7-clear-vs-grow"]),
    "CheckOrder=table-only": ({"CheckOrder": '"table-only"'}, ["S4-grow", "S5-shrink"]),
    "ClearLoserRetries=FALSE": ({"ClearLoserRetries": "FALSE"}, ["S7-clear-vs-grow"]),
    "InsertOrder=key-value": ({"InsertOrder": '"key-value"'}, ["S1-slot-reuse", "S9-delete-insert"]),
    "SnapshotRecheck=FALSE": ({"SnapshotRecheck": "FALSE"}, ["S1-slot-reuse"]),
    "CopyLocksBuckets=FALSE": ({"CopyLocksBuckets": "FALSE"}, ["S4-grow", "S4b-grow-delete"]),
    "PublishBeforeFlagClear=FALSE": ({"PublishBeforeFlagClear": "FALSE"}, ["S4-grow", "S7-clear-vs-grow"]),
    "SizeTarget=current": ({"SizeTarget": '"current"'}, ["S4-grow", "S7-clear-vs-grow", "S6-clear"]),
    "CopyRecounts=FALSE": ({"CopyRecounts": "FALSE"}, ["S4-grow", "S4b-grow-delete"]),
    "FnBeforeRetry=TRUE": ({"FnBeforeRetry": "TRUE"}, ["S11-racers-grow"]),
    "BroadcastOnResizeEnd=FALSE": ({"BroadcastOnResizeEnd": "FALSE"}, ["S8-two-growers", "S4-grow"]),
    "UnlockOnNewerTable=FALSE": ({"UnlockOnNewerTable": "FALSE"}, ["S4-grow", "S8-two-growers"]),
    "RangeSnapshotsTable=FALSE": ({"RangeSnapshotsTable": "FALSE"}, ["S15-range-grow", "S16-range-clear"]),
    "ResizeRereadsTable=FALSE": ({"ResizeRereadsTable": "FALSE"}, ["S17-stale-shrink-vs-clear"]),
    "CopySkipsEmptyBuckets=TRUE": ({"CopySkipsEmptyBuckets": "TRUE"}, ["S4c-grow-vs-insert-into-empty-bucket"]),
    "ClearChecksCounter=TRUE": ({"ClearChecksCounter": "TRUE"}, ["S6b-clear-empty"]),
    "ShrinkGiveUpClearsFlag=FALSE": ({"ShrinkGiveUpClearsFlag": "FALSE"}, ["S17-stale-shrink-vs-clear"]),
    "ZeroOnAbsentDelete=FALSE": ({"ZeroOnAbsentDelete": "FALSE"}, ["S13-compute-delete-absent"]),
}


def C(op, k="", v="", fn=""):
    return '[op |-> "%s", k |-> "%s", v |-> "%s", fn |-> "%s", lo |-> 0, hi |-> 0]' % (op, k, v, fn)


def families():
    """name -> dict(keys, hb, hh, nb0, minnb, grow, shrink, preload, menu, slots). Small geometry: 2 slots per bucket,
    1-2 root buckets growing to 4; thresholds scaled so that the scenario's insert / delete crosses them."""
    F = {}
    big = "[n \\in 1..16 |-> 100]"
    none = "[n \\in 1..16 |-> 0 - 1]"

    def fam(name, keys, hb, hh, preload, menu, nb0=1, minnb=1, grow=big, shrink=none, slots=2, maxgen=3):
        F[name] = dict(keys=keys, hb=hb, hh=hh, preload=preload, menu=menu, nb0=nb0, minnb=minnb, grow=grow, shrink=shrink, slots=slots, maxgen=maxgen)

    fam("S1-slot-reuse", ["k1", "k2"], {"k1": 0, "k2": 0}, {"k1": 1, "k2": 1}, ["k1"],
        {"t1": [C("Delete", "k1")], "t2": [C("Store", "k2", "b")], "t3": [C("Load", "k1"), C("Load", "k2")]})
    fam("S2-update", ["k1"], {"k1": 0}, {"k1": 1}, ["k1"],
        {"t1": [C("Store", "k1", "a")], "t2": [C("LoadAndStore", "k1", "b")], "t3": [C("Load", "k1"), C("Load", "k1")]})
    fam("S3-append", ["k1", "k2", "k3"], {"k1": 0, "k2": 0, "k3": 0}, {"k1": 1, "k2": 2, "k3": 1}, ["k1", "k2"],
        {"t1": [C("Store", "k3", "a")], "t2": [C("Load", "k3"), C("Load", "k1")], "t3": [C("Delete", "k2")]})
    g1 = "[n \\in 1..16 |-> IF n = 1 THEN 1 ELSE 100]"
    fam("S4-grow", ["k1", "k2", "k3"], {"k1": 0, "k2": 1, "k3": 2}, {"k1": 1, "k2": 1, "k3": 1}, ["k1", "k2"],
        {"t1": [C("Store", "k3", "a")], "t2": [C("LoadAndStore", "k1", "b")], "t3": [C("Load", "k1"), C("Load", "k3")]}, grow=g1)
    fam("S4b-grow-delete", ["k1", "k2", "k3"], {"k1": 0, "k2": 1, "k3": 2}, {"k1": 1, "k2": 1, "k3": 1}, ["k1", "k2"],
        {"t1": [C("LoadOrStore", "k3", "a")], "t2": [C("Delete", "k1"), C("Store", "k2", "c")], "t3": [C("Load", "k1")]}, grow=g1)
    s2 = "[n \\in 1..16 |-> IF n = 2 THEN 1 ELSE 0 - 1]"
    fam("S5-shrink", ["k1", "k2", "k3"], {"k1": 0, "k2": 1, "k3": 3}, {"k1": 1, "k2": 1, "k3": 1}, ["k1", "k2"],
        {"t1": [C("Delete", "k1")], "t2": [C("Store", "k3", "a")], "t3": [C("Load", "k2"), C("Load", "k3")]}, nb0=2, minnb=1, shrink=s2)
    fam("S6-clear", ["k1", "k2", "k3"], {"k1": 0, "k2": 0, "k3": 1}, {"k1": 1, "k2": 2, "k3": 1}, ["k1", "k3"],
        {"t1": [C("Clear")], "t2": [C("Store", "k2", "a"), C("Load", "k1")], "t3": [C("Load", "k1"), C("Load", "k2")]}, nb0=2, minnb=2)
    fam("S7-clear-vs-grow", ["k1", "k2", "k3"], {"k1": 0, "k2": 1, "k3": 2}, {"k1": 1, "k2": 1, "k3": 1}, ["k1", "k2"],
        {"t1": [C("Store", "k3", "a")], "t2": [C("Clear"), C("Load", "k1")], "t3": [C("Load", "k1")]}, grow=g1)
    fam("S8-two-growers", ["k1", "k2", "k3", "k4"], {"k1": 0, "k2": 1, "k3": 2, "k4": 3}, {"k1": 1, "k2": 1, "k3": 1, "k4": 1}, ["k1", "k2"],
        {"t1": [C("Store", "k3", "a")], "t2": [C("Store", "k4", "b")], "t3": [C("Load", "k3"), C("Load", "k4")]}, grow=g1, maxgen=4)
    fam("S9-delete-insert", ["k1"], {"k1": 0}, {"k1": 1}, ["k1"],
        {"t1": [C("LoadAndDelete", "k1")], "t2": [C("LoadOrStore", "k1", "a")], "t3": [C("Load", "k1"), C("LoadAndDelete", "k1")]})
    fam("S10-racers", ["k1", "k2"], {"k1": 0, "k2": 0}, {"k1": 1, "k2": 2}, ["k2"],
        {"t1": [C("LoadOrCompute", "k1", "a")], "t2": [C("LoadOrCompute", "k1", "b")], "t3": [C("LoadOrStore", "k1", "c"), C("Delete", "k2")]})
    fam("S11-racers-grow", ["k1", "k2", "k3"], {"k1": 0, "k2": 1, "k3": 2}, {"k1": 1, "k2": 1, "k3": 1}, ["k1", "k2"],
        {"t1": [C("LoadOrCompute", "k3", "a")], "t2": [C("Compute", "k3", "b", "setifabsent")], "t3": [C("LoadOrCompute", "k3", "c")]}, grow=g1)
    fam("S12-compute-chain", ["k1"], {"k1": 0}, {"k1": 1}, ["k1"],
        {"t1": [C("Compute", "k1", "a", "toggle")], "t2": [C("Compute", "k1", "b", "toggle")], "t3": [C("Compute", "k1", "c", "setifabsent"), C("Load", "k1")]})
    fam("S13-compute-delete-absent", ["k1", "k2", "k3"], {"k1": 0, "k2": 0, "k3": 0}, {"k1": 1, "k2": 2, "k3": 3}, ["k1", "k2"],
        {"t1": [C("Compute", "k3", "a", "delret")], "t2": [C("Load", "k3")]})
    fam("S17-stale-shrink-vs-clear", ["k1", "k2", "k3"], {"k1": 0, "k2": 1, "k3": 3}, {"k1": 1, "k2": 1, "k3": 1}, ["k1", "k2"],
        {"t1": [C("Delete", "k1")], "t2": [C("Clear"), C("Store", "k3", "a")], "t3": [C("Load", "k3"), C("Load", "k2")]}, nb0=2, minnb=1, shrink=s2, maxgen=4)
    g2 = "[n \\in 1..16 |-> IF n = 2 THEN 1 ELSE 100]"
    fam("S4c-grow-vs-insert-into-empty-bucket", ["k1", "k2", "k3", "k4"], {"k1": 0, "k2": 0, "k3": 4, "k4": 1}, {"k1": 1, "k2": 2, "k3": 1, "k4": 1}, ["k1", "k2"],
        {"t1": [C("Store", "k3", "a")], "t2": [C("Store", "k4", "b")], "t3": [C("Load", "k4")]}, nb0=2, minnb=2, grow=g2)
    fam("S6b-clear-empty", ["k1"], {"k1": 0}, {"k1": 1}, [],
        {"t1": [C("Store", "k1", "a")], "t2": [C("Load", "k1"), C("Clear"), C("Load", "k1")]}, nb0=1, minnb=1)
    fam("S14-range-writers", ["k1", "k2", "k3"], {"k1": 0, "k2": 0, "k3": 1}, {"k1": 1, "k2": 2, "k3": 1}, ["k1", "k3"],
        {"t1": [C("Range")], "t2": [C("Delete", "k1"), C("Store", "k1", "a")], "t3": [C("Store", "k2", "b")]}, nb0=2, minnb=2)
    fam("S15-range-grow", ["k1", "k2", "k3"], {"k1": 0, "k2": 1, "k3": 2}, {"k1": 1, "k2": 1, "k3": 1}, ["k1", "k2"],
        {"t1": [C("Range")], "t2": [C("Store", "k3", "a")], "t3": [C("Delete", "k1")]}, grow=g1)
    fam("S16-range-clear", ["k1", "k2"], {"k1": 0, "k2": 1}, {"k1": 1, "k2": 1}, ["k1", "k2"],
        {"t1": [C("Range")], "t2": [C("Clear"), C("Store", "k1", "a")]}, nb0=2, minnb=2)
    return F


def tla_fun(d):
    items = list(d.items())
    s = ""
    for k, v in items[:-1]:
        s += 'IF k = "%s" THEN %s ELSE ' % (k, v)
    return s + str(items[-1][1])


def write_model(d, name, variant, switches=None, extra_inv=(), liveness=False):
    f = families()[name]
    sw = dict(DEFAULT_SWITCHES)
    sw.update(switches or {})
    keys = "{%s}" % ", ".join('"%s"' % k for k in f["keys"])
    threads = sorted(f["menu"])
    mod = "MC_CLHT"
    menu = ""
    for t in threads[:-1]:
        menu += 'IF t = "%s" THEN <<%s>> ELSE ' % (t, ", ".join(f["menu"][t]))
    menu += "<<%s>>" % ", ".join(f["menu"][threads[-1]])
    txt = "---- MODULE %s ----\nEXTENDS CLHT\n" % mod
    txt += "HBdef == [k \\in %s |-> %s]\n" % (keys, tla_fun(f["hb"]))
    txt += "HHdef == [k \\in %s |-> %s]\n" % (keys, tla_fun(f["hh"]))
    txt += "GrowDef == %s\nShrinkDef == %s\n" % (f["grow"], f["shrink"])
    txt += "MenuDef == [t \\in {%s} |-> %s]\n====\n" % (", ".join('"%s"' % t for t in threads), menu)
    open(os.path.join(d, mod + ".tla"), "w").write(txt)
    cfg = "SPECIFICATION Spec\nCONSTANTS\n Variant = \"%s\"\n Threads = {%s}\n Keys = %s\n Slots = %d\n MaxGen = %d\n NB0 = %d\n MinNB = %d\n" % (
        variant, ", ".join('"%s"' % t for t in threads), keys, f["slots"], f["maxgen"], f["nb0"], f["minnb"])
    cfg += " HB <- HBdef\n HH <- HHdef\n GrowAt <- GrowDef\n ShrinkAt <- ShrinkDef\n Menu <- MenuDef\n"
    cfg += " Preload = {%s}\n" % ", ".join('"%s"' % k for k in f["preload"])
    for k, v in sw.items():
        cfg += " %s = %s\n" % (k, v)
    cfg += ' defaultInitValue = "div"\n'
    for inv in ("Linearizable", "NoDuplicateKeys", "LocksReleased", "FnCounts") + tuple(extra_inv):
        cfg += "INVARIANT %s\n" % inv
    if liveness:
        cfg += "PROPERTY EventuallyDone\n"
    open(os.path.join(d, mod + ".cfg"), "w").write(cfg)
    return mod


def run_family(name, variant, switches=None, timeout=1800, workers=None, liveness=False):
    """Exhaustive TLC run of one family; returns lib.run_tlc result plus 'violated' (invariant name or 'deadlock' or None)."""
    d = lib.mktemp("verif-clht-")
    import shutil
    for m in ("CLHT", "MapSem"):  # SequencesExt comes from the CommunityModules jar
        shutil.copy(os.path.join(lib.SPECS, m + ".tla"), d)
    mod = write_model(d, name, variant, switches, liveness=liveness)
    r = lib.run_tlc(mod, cfg=None, workers=workers or lib.NCPU, timeout=timeout, workdir=d, staged=True)
    out = r["out"]
    r["violated"] = None
    m = re.search(r"Invariant (\w+) is violated", out)
    if m:
        r["violated"] = m.group(1)
    elif "Deadlock reached" in out:
        r["violated"] = "deadlock"
    elif "Temporal properties were violated" in out:
        r["violated"] = "liveness"
    elif not r["ok"]:
        r["violated"] = "error"
    return r


def run_freeze(name, variant, switches=None, reader="t3", bound=40, timeout=1800):
    """C16 at the specification level: freeze all threads but the reader at every reachable state (CLHT_Freeze)."""
    import shutil
    d = lib.mktemp("verif-freeze-")
    for m in ("CLHT", "MapSem", "CLHT_Freeze"):
        shutil.copy(os.path.join(lib.SPECS, m + ".tla"), d)
    write_model(d, name, variant, switches)
    cfg = open(os.path.join(d, "MC_CLHT.cfg")).read()
    cfg = cfg.replace("SPECIFICATION Spec", "SPECIFICATION FSpec")
    cfg = "\n".join(l for l in cfg.splitlines() if not l.startswith("INVARIANT")) + "\n"
    cfg = cfg.replace("CONSTANTS\n", "CONSTANTS\n Reader = \"%s\"\n Bound = %d\n" % (reader, bound))
    cfg += "INVARIANT ReaderBounded\n"
    open(os.path.join(d, "CLHT_Freeze.cfg"), "w").write(cfg)
    r = lib.run_tlc("CLHT_Freeze", workers=lib.NCPU, timeout=timeout, workdir=d, staged=True)
    out = r["out"]
    r["violated"] = None
    m = re.search(r"Invariant (\w+) is violated", out)
    if m:
        r["violated"] = m.group(1)
    elif "Deadlock reached" in out:
        r["violated"] = "deadlock"
    elif not r["ok"]:
        r["violated"] = "error"
    return r

"""Atomic-level conformance of real scheduler runs against CLHT.tla (Trace_CLHT): site -> label mapping, instantiation of
the specification with the real geometry and the projected initial table, conversion of a recorded run into a label trace."""
import json, os, re, shutil

import lib
import clht

SILENT_COMMON = ["Disp", "L3", "L3c", "L3n", "DC0", "DC0r", "DC3g", "DC4g", "DF1", "DF2", "DF3", "DG0", "DGg", "DDs", "DDr", "DCr",
                 "RZ0", "RZ1r", "RZc", "RZr", "RZ9", "R2", "R3", "CL2"]
SILENT = {"Map": SILENT_COMMON, "MapOf": SILENT_COMMON + ["DC5", "DD2", "DI2"]}
UNLOCKS = ["DC3u", "DC3v", "DC4u", "DC4v", "DDu", "DIu", "DGu", "DCu"]


def fnv(s):
    h = 14695981039346656037
    for c in s.encode():
        h ^= c
        h = (h * 1099511628211) & 0xFFFFFFFFFFFFFFFF
    return h


def pin_hash(pin, name):
    """(bucket bits, bucket-local hash) exactly as the harness' pinHash computes them."""
    if name in pin["keys"]:
        return pin["keys"][name][0], pin["keys"][name][1]
    x = fnv(name)
    b = (x >> 8) & 0xFFFFFF
    while any((b & 31) == (a & 31) for a in pin.get("avoid", [])):
        b += 1
    return b, x & 0x7F


class Mapper:
    """Stateful mapping of one thread's step events to CLHT labels (None = no spec step: spin reads, stripe reads, ...)."""

    def __init__(self, variant, sitemap):
        self.variant = variant
        self.sites = {(s["file"], s["line"]): s for s in sitemap["sites"]}
        self.scan_open = {}      # thread -> the scan's first top-hash load has been seen
        self.sum_open = {}

    def labels(self, t, ev):
        f, line = ev["fn"].rsplit(":", 1)
        if f.startswith("vsync.go"):
            # lock operations made by the Cond shim on behalf of resizeCond.Wait
            return ["W3c"] if ev["op"] == "Lock" else None
        s = self.sites.get((f, int(line)))
        if s is None:
            return "?"
        fn, op, operand, caller, ordn = s["func"], s["op"], s["operand"], ev["k"], s["ordinal"]
        kind = ev["op"]
        if fn == "Load":
            return {"&m.table": ["L1"], "&b.topHashMutex": ["L2"], "&b.meta": ["L2"], "&b.entries[idx]": ["L3e"], "&b.next": ["L4"],
                    "&b.keys[i]": ["L3k"]}.get(operand) or (["L3v"] if ordn == 1 else ["L3r"])
        if fn == "lockBucket":
            if op == "CompareAndSwapUint64" and ev["ok"]:
                return {"doCompute": ["DC2"], "copyBucket": ["RZl"], "Range": ["R2l"]}.get(caller, "?")
            return None
        if fn == "unlockBucket":
            if op == "StoreUint64":
                return {"doCompute": UNLOCKS, "copyBucket": ["RZu"], "Range": ["R2u"]}.get(caller, "?")
            return None
        if fn == "resizeInProgress":
            return {"doCompute": ["DC3"], "waitForResize": ["W2"]}.get(caller, "?")
        if fn == "newerTableExists":
            self.scan_open[t] = True
            return ["DC4"]
        if fn == "sumSize":
            if caller == "doCompute":
                if self.sum_open.get(t):
                    return None
                self.sum_open[t] = True
                return ["DG1"]
            return None
        if fn == "addSize":
            return ["DDa", "DIa"]
        if fn == "waitForResize":
            return {"Lock": ["W1"], "Unlock": ["W4"], "Wait": ["W3"] if kind == "CondWait" else ["W3b"]}.get(op, "?")
        if fn == "resize":
            if op == "CompareAndSwapInt64":
                return ["RZ1"]
            if op == "LoadPointer":
                return ["RZ2"]
            if op == "AddInt64":
                return None
            if op == "StorePointer":
                return ["RZ4"]
            tbl = {("Lock", 1): "RZa", ("StoreInt64", 1): "RZa2", ("Broadcast", 1): "RZa3", ("Unlock", 1): "RZa4",
                   ("Lock", 2): "RZ5", ("StoreInt64", 2): "RZ6", ("Broadcast", 2): "RZ7", ("Unlock", 2): "RZ8"}
            return [tbl[(op, ordn)]] if (op, ordn) in tbl else "?"
        if fn in ("copyBucketOf",):
            return {"Lock": ["RZl"], "Unlock": ["RZu"]}.get(op, "?")
        if fn == "Range":
            return {"LoadPointer": ["R1"], "Lock": ["R2l"], "Unlock": ["R2u"]}.get(op, "?")
        if fn == "Clear":
            return ["CL1"]
        if fn == "Size":
            return None
        if fn == "doCompute":
            if op == "LoadPointer":
                self.sum_open[t] = False
                return ["DC1"]
            if op == "Lock":
                return ["DC2"]
            if op == "Unlock":
                return UNLOCKS
            if op == "LoadUint64":
                if operand.startswith("&emptyb"):
                    return None
                if self.scan_open.get(t):
                    self.scan_open[t] = False
                    return ["DC5"]
                return None
            if op == "StoreUint64":
                return ["DI0"] if operand.startswith("&emptyb") else ["DD0"]
            if op == "StorePointer":
                if operand.startswith("&emptyb.values") or operand.startswith("&emptyb.entries"):
                    return ["DI1"]
                if operand.startswith("&emptyb.keys"):
                    return ["DI2"]
                if operand == "&b.next":
                    return ["DA1"]
                if operand == "&b.keys[i]":
                    return ["DD2"]
                return ["DD1"] if ordn == 1 else ["DS1"]
        return "?"


def tla_str(s):
    return '"%s"' % s


def build(run_lines, scenario, variant, sitemap, workdir):
    """Write MC_TraceCLHT.tla / .cfg / trace.ndjson for one recorded run; returns (trace path, n events) or raises ValueError."""
    evs = [json.loads(x) for x in run_lines]
    init = next((e for e in evs if e["ev"] == "init"), None)
    if init is None:
        raise ValueError("no table projection (access files unavailable)")
    tb = json.loads(init["note"])
    slots = 3 if variant == "Map" else 5
    pin = scenario["pin"]
    # keys: everything in the projected table + every key the threads mention
    keys = set()
    for ch in tb["Chains"]:
        for cell in ch:
            keys.update(k for k in cell["Keys"] if k)
    for th in scenario["threads"]:
        for op in th:
            if op.get("k"):
                keys.add(op["k"])
    if any((o["op"] == "Range" and o.get("fn", "all") != "all") or o.get("op", "").startswith("Bulk") for th in scenario["threads"] for o in th):
        raise ValueError("scenario uses calls outside the CLHT conformance menu")
    keys = sorted(keys)
    hb, hh = {}, {}
    for k in keys:
        b, h = pin_hash(pin, k)
        hb[k] = b
        hh[k] = (h & 0xFFFFF) if variant == "Map" else (h & 0x7F)
    ballast = [k for k in keys if re.match(r"^b\d+$", k)]

    def cell_tla(cell):
        ss = []
        for i in range(slots):
            k = cell["Keys"][i]
            if k:
                ss.append('[pres |-> TRUE, hsh |-> %d, key |-> "%s", val |-> "%s"]' % (hh[k], k, cell["Vals"][i] or "nil"))
            else:
                ss.append("EmptySlot")
        return "<<%s>>" % ", ".join(ss)

    chains = ", ".join("<<%s>>" % ", ".join(cell_tla(c) for c in ch) for ch in tb["Chains"])
    nb = tb["Len"]
    threads = list(range(1, len(scenario["threads"]) + 1))
    menu = ""
    for t in threads:
        calls = ", ".join('[op |-> "%s", k |-> "%s", v |-> "%s", fn |-> "%s", lo |-> 0, hi |-> 0]' % (o["op"], o.get("k", ""), o.get("v", ""), o.get("fn", "")) for o in scenario["threads"][t - 1])
        menu += ("IF t = %d THEN <<%s>> ELSE " % (t, calls)) if t != threads[-1] else "<<%s>>" % calls
    mod = "---- MODULE MC_TraceCLHT ----\nEXTENDS CLHT\n"
    mod += "KeysDef == {%s}\n" % ", ".join(tla_str(k) for k in keys)
    mod += "BallastKeys == {%s}\n" % ", ".join(tla_str(k) for k in ballast)
    mod += "HBdef == %s\n" % (" @@ ".join('(%s :> %d)' % (tla_str(k), hb[k]) for k in keys))
    mod += "HHdef == %s\n" % (" @@ ".join('(%s :> %d)' % (tla_str(k), hh[k]) for k in keys))
    mod += "GrowDef == [n \\in 1..1024 |-> (n * %d * 3) \\div 4]\nShrinkDef == [n \\in 1..1024 |-> (n * %d) \\div 128]\n" % (slots, slots)
    mod += "MenuDef == [t \\in {%s} |-> %s]\n" % (", ".join(str(t) for t in threads), menu)
    mod += "ChainsDef == <<%s>>\n" % chains
    mod += "InitTabDef == [nb |-> %d, cells |-> [b \\in 0..%d |-> ChainsDef[b + 1]], lock |-> [b \\in 0..%d |-> None], size |-> %d]\n" % (nb, nb - 1, nb - 1, tb["Counter"])
    mod += "SilentLabels == {%s}\n====\n" % ", ".join(tla_str(x) for x in SILENT[variant])
    open(os.path.join(workdir, "MC_TraceCLHT.tla"), "w").write(mod)
    sw = dict(clht.DEFAULT_SWITCHES)
    cfg = "SPECIFICATION TraceSpec\nCONSTANTS\n Variant = \"%s\"\n Threads = {%s}\n Keys <- KeysDef\n Slots = %d\n MaxGen = 4\n NB0 = %d\n MinNB = 32\n" % (variant, ", ".join(str(t) for t in threads), slots, nb)
    cfg += " HB <- HBdef\n HH <- HHdef\n GrowAt <- GrowDef\n ShrinkAt <- ShrinkDef\n Menu <- MenuDef\n Preload = {}\n InitTab <- InitTabDef\n"
    for k, v in sw.items():
        cfg += " %s = %s\n" % (k, v)
    cfg += ' defaultInitValue = "div"\nCONSTRAINT Mark\nPOSTCONDITION Report\nCHECK_DEADLOCK FALSE\n'
    open(os.path.join(workdir, "Trace_CLHT.cfg"), "w").write(cfg)
    # the label trace
    mp = Mapper(variant, sitemap)
    out = []
    started = False
    unknown = []
    visits = {}
    for e in evs:
        if e["ev"] == "visit" and started:
            visits.setdefault(e["t"], []).append({"k": e["k"], "v": e["v"]})
            continue
        if e["ev"] == "phase":
            started = True
            continue
        if not started:
            continue
        if e["ev"] == "step":
            lab = mp.labels(e["t"], e)
            if lab == "?":
                unknown.append(e["fn"] + "<" + e["k"])
                continue
            if lab is None:
                continue
            out.append({"ev": "step", "t": e["t"], "labels": lab, "site": e["fn"], "op": "", "k": "", "rv": "", "ok": False, "n": 0, "vis": []})
        elif e["ev"] in ("call", "ret") and e["t"] > 0:
            rec = {"ev": e["ev"], "t": e["t"], "op": e["op"], "k": e["k"], "rv": e["rv"], "ok": e["ok"], "n": e["n"], "labels": [], "vis": []}
            if e["ev"] == "call" and e["op"] == "Range":
                visits[e["t"]] = []
            if e["ev"] == "ret" and e["op"] == "Range":
                rec["vis"] = visits.get(e["t"], [])
            out.append(rec)
        elif e["ev"] == "quiesce":
            out.append({"ev": "final", "t": 0, "x": e["x"], "n": e["n"], "vis": e["vis"], "labels": []})
            break
    path = os.path.join(workdir, "trace.ndjson")
    with open(path, "w") as f:
        for e in out:
            f.write(json.dumps(e) + "\n")
    return path, len(out), unknown


def conform(run_lines, scenario, variant, sitemap, timeout=600):
    """Returns (ok, detail). ok=None when the run cannot be checked (outside the menu)."""
    d = lib.mktemp("verif-tclht-")
    for m in ("CLHT", "MapSem", "Trace_CLHT"):
        shutil.copy(os.path.join(lib.SPECS, m + ".tla"), d)
    try:
        path, n, unknown = build(run_lines, scenario, variant, sitemap, d)
    except ValueError as e:
        return None, str(e)
    r = lib.run_tlc("Trace_CLHT", workers=1, env={"TRACE": path}, timeout=timeout, dfs=True, workdir=d, staged=True, heap="2g")
    m = re.findall(r'<<"HWM", (\d+), (\d+)>>', r["out"])
    if not m:
        return False, "no HWM: " + r["out"][-1500:]
    hwm, total = int(m[-1][0]), int(m[-1][1])
    if hwm >= total:
        return True, {"events": total, "unknown_sites": sorted(set(unknown))[:5], "states": r.get("distinct")}
    ev = [json.loads(x) for x in open(path)][hwm]
    return False, {"matched": hwm, "of": total, "first_unmatched": ev, "unknown_sites": sorted(set(unknown))[:5]}

"""Seeded generators of sequential programs (cache and map) for the harness."""
import random

NOEXP_NS, DEFEXP_NS = -2_000_000_000, -1_000_000_000


class ValGen:
    def __init__(self):
        self.n = 0

    def next(self):
        self.n += 1
        return "v%d" % self.n


COMPUTE_FNS = ["set", "del", "delret", "keep", "toggle", "setifabsent"]


def cache_cfg(rng, kind, keytype, valtype, unit, allow_default_interval=True):
    noexp, defexp = NOEXP_NS // unit, DEFEXP_NS // unit
    ctor = rng.choice(["New", "New", "NewDefault"])
    cfg = {"kind": kind, "keytype": keytype, "valtype": valtype, "ctor": ctor}
    defs = [noexp, defexp, 0, -5, 1, 2, 3, 5, 20, 100]
    if ctor == "NewDefault":
        cfg["def"] = rng.choice(defs)
        cfg["interval"] = rng.choice([0, 0, -1, -7])
    else:
        if rng.random() < 0.7:
            cfg["hasdef"] = True
            cfg["def"] = rng.choice(defs)
        # New() without WithCleanupInterval starts a janitor with the 10 s default: harmless in the
        # ns regime (the clock never advances that far), excluded in the s regime.
        if unit != 1 or not allow_default_interval or rng.random() < 0.7:
            cfg["hasintv"] = True
            cfg["interval"] = rng.choice([0, 0, -1, -7])
        if rng.random() < 0.3:
            cfg["hascap"] = True
            cfg["mincap"] = rng.choice([-1, 0, 1, 96, 97, 1000])
    cfg["cb"] = rng.choice(["", "cb1", "cb1"])
    return cfg


def durations(rng, unit):
    noexp, defexp = NOEXP_NS // unit, DEFEXP_NS // unit
    return rng.choice([noexp, defexp, defexp, -5, -3, 0, 1, 1, 2, 2, 3, 5, 8, 20, 100, rng.randint(1, 1000)])


def cache_program(rng, kind, keytype, valtype, unit=1, length=150, nkeys=5, note="", cfg=None, boundary_bias=0.5, slowfn=0.0):
    """Random sequential cache program. A tiny shadow of the expiry arithmetic is kept only to aim clock
    advances at expiration instants (e-1, e, e+1); it is not an oracle."""
    noexp, defexp = NOEXP_NS // unit, DEFEXP_NS // unit
    cfg = cfg or cache_cfg(rng, kind, keytype, valtype, unit)
    vg = ValGen()
    keys = ["k%d" % (i + 1) for i in range(nkeys)]
    now = 1000
    given = cfg.get("def", noexp) if (cfg.get("hasdef") or cfg["ctor"] == "NewDefault") else noexp
    dflt = noexp if given < 1 else given
    exp = {}
    ops = []

    def arm(k, d):
        dd = dflt if d == defexp else d
        exp[k] = now + dd if dd > 0 else 0

    weights = [("Set", 12), ("SetDefault", 3), ("SetForever", 2), ("Get", 10), ("GetWithExpiration", 5), ("GetWithTTL", 5),
               ("GetOrSet", 5), ("GetAndSet", 5), ("GetAndRefresh", 5), ("GetOrCompute", 5), ("Compute", 9),
               ("GetAndDelete", 5), ("Delete", 4), ("DeleteExpired", 4), ("Range", 3), ("Items", 2), ("RangeNil", 0.3),
               ("Clear", 1), ("Count", 2), ("DefaultExpiration", 1), ("SetDefaultExpiration", 2), ("SetEvictedCallback", 1.5),
               ("Tick", 24)]
    names = [w[0] for w in weights]
    ws = [w[1] for w in weights]
    for _ in range(length):
        op = rng.choices(names, ws)[0]
        k = rng.choice(keys)
        o = {"op": op}
        if op == "Tick":
            cands = [e - now for e in exp.values() if e and e >= now - 1]
            if cands and rng.random() < boundary_bias:
                dt = rng.choice(cands) + rng.choice([-1, 0, 0, 1, 1])
                if dt <= 0:
                    dt = 1
            else:
                dt = rng.choice([1, 1, 2, 3, 7])
            o["d"] = dt
            now += dt
        elif op in ("Set", "GetOrSet", "GetAndSet", "GetOrCompute"):
            o.update(k=k, v=vg.next() if rng.random() > 0.03 else "nil", d=durations(rng, unit))
            if op == "GetOrCompute" and slowfn and rng.random() < slowfn:
                o["ft"] = rng.choice([1, 2, 5])   # slow user function: the clock advances while it runs (if it runs)
                if not exp.get(k) or exp[k] < now:
                    now += o["ft"]
            arm(k, o["d"])
        elif op == "SetDefault":
            o.update(k=k, v=vg.next())
            arm(k, defexp)
        elif op == "SetForever":
            o.update(k=k, v=vg.next())
            arm(k, noexp)
        elif op == "GetAndRefresh":
            o.update(k=k, d=durations(rng, unit))
            if k in exp:
                arm(k, o["d"])
        elif op == "Compute":
            o.update(k=k, v=vg.next(), d=durations(rng, unit), fn=rng.choice(COMPUTE_FNS))
            if slowfn and rng.random() < slowfn:
                o["ft"] = rng.choice([1, 2, 5])
                now += o["ft"]
            arm(k, o["d"])
        elif op in ("Get", "GetWithExpiration", "GetWithTTL", "GetAndDelete", "Delete"):
            o.update(k=k)
        elif op == "Range":
            o.update(fn=rng.choice(["all", "all", "stop:1", "stop:2", "stop:3"]))
        elif op == "SetDefaultExpiration":
            o.update(d=rng.choice([noexp, defexp, 0, -5, 1, 2, 5, 50]))
            dflt = o["d"]
        elif op == "SetEvictedCallback":
            o.update(fn=rng.choice(["cb1", "cb2", "nil"]))
        ops.append(o)
    # closing observations: everything is read back, cleaned and counted
    for k in keys:
        ops.append({"op": "GetWithExpiration", "k": k})
    ops += [{"op": "Items"}, {"op": "DeleteExpired"}, {"op": "Count"}]
    return {"cache": cfg, "unit": unit, "ops": ops, "note": note}


MAP_WEIGHTS = [("Load", 10), ("Store", 12), ("LoadOrStore", 5), ("LoadAndStore", 5), ("LoadOrCompute", 5), ("Compute", 9),
               ("LoadAndDelete", 6), ("Delete", 6), ("Range", 2), ("Clear", 0.5), ("Size", 2)]


def map_program(rng, kind, keytype, valtype, length=150, nkeys=6, hint=None, note="", pin=None, weights=None, keys=None):
    vg = ValGen()
    keys = keys or ["k%d" % (i + 1) for i in range(nkeys)]
    cfg = {"kind": kind, "keytype": keytype, "valtype": valtype}
    if hint is not None:
        cfg.update(hashint=True, hint=hint)
    weights = weights or MAP_WEIGHTS
    names = [w[0] for w in weights]
    ws = [w[1] for w in weights]
    ops = []
    for _ in range(length):
        op = rng.choices(names, ws)[0]
        k = rng.choice(keys)
        o = {"op": op}
        if op in ("Store", "LoadOrStore", "LoadAndStore", "LoadOrCompute"):
            o.update(k=k, v=vg.next() if rng.random() > 0.03 else "nil")
        elif op == "Compute":
            o.update(k=k, v=vg.next(), fn=rng.choice(COMPUTE_FNS))
        elif op in ("Load", "LoadAndDelete", "Delete"):
            o.update(k=k)
        elif op == "Range":
            o.update(fn=rng.choice(["all", "all", "stop:1", "stop:2"]))
        ops.append(o)
    for k in keys[:50]:
        ops.append({"op": "Load", "k": k})
    ops += [{"op": "Range", "fn": "all"}, {"op": "Size"}]
    p = {"map": cfg, "ops": ops, "note": note}
    if pin:
        p["pin"] = pin
    return p

"""Shared orchestration for /verif/check: scratch builds of the instrumented
repository, harness invocation, TLC runs (exhaustive, simulation, trace
validation), evidence files, verdict policy."""
import atexit, concurrent.futures, hashlib, json, os, random, re, shutil, subprocess, sys, tempfile, time

VERIF = os.path.dirname(os.path.dirname(os.path.dirname(os.path.abspath(__file__))))
REPO = os.environ.get("VERIF_REPO", "/repo")
SPECS = os.path.join(VERIF, "specs")
TOOLS = os.path.join(VERIF, "tools")
BIN = os.path.join(VERIF, "bin")
GOENV = dict(os.environ, GOFLAGS="-mod=mod", GOPROXY="off", GOSUMDB="off", GOTOOLCHAIN="local")
NCPU = os.cpu_count() or 4

_tmpdirs = []


def _cleanup():
    for d in _tmpdirs:
        shutil.rmtree(d, ignore_errors=True)


atexit.register(_cleanup)


def mktemp(prefix="verif-"):
    d = tempfile.mkdtemp(prefix=prefix)
    _tmpdirs.append(d)
    return d


class Inconclusive(Exception):
    pass


def sh(cmd, cwd=None, env=None, timeout=None, check=True, capture=True):
    p = subprocess.run(cmd, cwd=cwd, env=env or GOENV, timeout=timeout, shell=isinstance(cmd, str),
                       stdout=subprocess.PIPE if capture else None, stderr=subprocess.STDOUT if capture else None, text=True)
    if check and p.returncode != 0:
        o = p.stdout or ""
        raise Inconclusive("command failed (%d): %s\n%s" % (p.returncode, cmd, o if len(o) < 5000 else o[:2000] + "\n...\n" + o[-2500:]))
    return p


# ---------------------------------------------------------------- building

def ensure_instrument():
    exe = os.path.join(BIN, "instrument")
    src = os.path.join(TOOLS, "instrument", "main.go")
    if not os.path.exists(exe) or os.path.getmtime(exe) < os.path.getmtime(src) or os.environ.get("VERIF_REBUILD"):
        os.makedirs(BIN, exist_ok=True)
        sh(["go", "build", "-o", exe, "."], cwd=os.path.join(TOOLS, "instrument"))
    return exe


class Scratch:
    """An instrumented copy of the repository working tree with the harness built in it."""

    def __init__(self, race=False, noshim=False):
        self.dir = mktemp("verif-scratch-")
        self.access = True
        self.race = race
        exe = ensure_instrument()
        # the tree itself must compile, otherwise nothing can be said
        p = sh(["go", "build", "./..."], cwd=REPO, check=False)
        if p.returncode != 0:
            raise Inconclusive("repository working tree does not compile:\n" + p.stdout[-3000:])
        base = [exe, "-src", REPO, "-tools", TOOLS]
        self.harness = os.path.join(self.dir, "harness.bin")
        feats = {"pins": True, "cpins": True, "phys": True, "project": True}
        if noshim:
            sh(base + ["-dst", self.dir, "-noshim"])
            p = sh(["go", "build"] + (["-race"] if race else []) + ["-tags", "nopins nocpins nophys noproject", "-o", self.harness, "./zzverif/harness"], cwd=self.dir, check=False)
            if p.returncode != 0:
                raise Inconclusive("harness does not build:\n" + p.stdout[-3000:])
            feats = {"pins": False, "cpins": False, "phys": False, "project": False}
        else:
            # the in-package access files are independent features: when one no longer compiles against a refactored tree it is
            # dropped (degraded check, SPEC-DRIFT), the others and every API-level check keep running
            first_err = None
            for attempt in range(4):
                shutil.rmtree(self.dir, ignore_errors=True)
                os.makedirs(self.dir)
                sh(base + ["-dst", self.dir] + ["-%s=%s" % (k, "true" if v else "false") for k, v in feats.items()])
                tags = " ".join("no" + k for k, v in feats.items() if not v)
                p = sh(["go", "build"] + (["-race"] if race else []) + (["-tags", tags] if tags else []) + ["-o", self.harness, "./zzverif/harness"], cwd=self.dir, check=False)
                if p.returncode == 0:
                    break
                first_err = first_err or p.stdout
                hit = [k for k in feats if feats[k] and ("zz_verif_%s_" % k) in p.stdout]
                if not hit:
                    hit = [k for k in feats if feats[k]]      # unknown cause: drop everything that is left
                for k in hit:
                    feats[k] = False
            else:
                raise Inconclusive("harness does not build against the working tree:\n" + (first_err or "")[-3000:])
        self.features = feats
        self.access = all(feats.values())
        self.info = json.loads(sh([self.harness, "info"], cwd=self.dir).stdout)

    def run(self, cmd, inp=None, out=None, stats=None, extra=(), timeout=1800, env=None, check=True):
        args = [self.harness, cmd]
        if inp:
            args += ["-in", inp]
        if out:
            args += ["-out", out]
        if stats:
            args += ["-stats", stats]
        args += list(extra)
        e = dict(GOENV)
        if env:
            e.update(env)
        return sh(args, cwd=self.dir, timeout=timeout, env=e, check=check)


# ---------------------------------------------------------------- TLC

TLC_JAVA_OPTS = "-Dtlc2.tool.queue.IStateQueue=StateDeque"


def spec_deps(spec):
    """All local modules a spec EXTENDS/INSTANCEs, transitively."""
    seen, todo = set(), [spec]
    while todo:
        m = todo.pop()
        if m in seen:
            continue
        p = os.path.join(SPECS, m + ".tla")
        if not os.path.exists(p):
            continue
        seen.add(m)
        txt = open(p).read()
        for mm in re.findall(r"EXTENDS\s+([^\n]+(?:\n\s+[A-Za-z_][^\n]*)*)", txt):
            for name in re.split(r"[,\s]+", mm.strip()):
                if name:
                    todo.append(name)
        for name in re.findall(r"INSTANCE\s+([A-Za-z_0-9]+)", txt):
            todo.append(name)
    return seen


def stage_spec(spec, cfg=None, workdir=None):
    d = workdir or mktemp("verif-tlc-")
    for m in spec_deps(spec):
        shutil.copy(os.path.join(SPECS, m + ".tla"), d)
    c = cfg or (spec + ".cfg")
    shutil.copy(os.path.join(SPECS, c), os.path.join(d, spec + ".cfg"))
    return d


def run_tlc(spec, cfg=None, workers=1, env=None, timeout=600, extra=(), dfs=False, workdir=None, heap=None, staged=False):
    d = workdir if staged else stage_spec(spec, cfg, workdir)
    e = dict(os.environ)
    if dfs:
        e["JAVA_TOOL_OPTIONS"] = TLC_JAVA_OPTS
    if env:
        e.update(env)
    md = tempfile.mkdtemp(prefix="md-", dir=d)
    # explicit heap limits: the JVM default (25% of RAM per process) lets 16 parallel trace-validation shards exhaust memory
    java = ["java", "-XX:+UseParallelGC", "-Xmx" + (heap or ("2560m" if workers == 1 else "12g"))]
    java += ["-Djava.io.tmpdir=" + md]   # TLC's own temporary files go with the scratch directory
    java += ["-Xss512m", "-cp", "/opt/veriftools/tla/tla2tools.jar:/opt/veriftools/tla/CommunityModules-deps.jar", "tlc2.TLC"]
    cmd = java + ["-workers", str(workers), "-metadir", md, "-config", spec + ".cfg"] + list(extra) + [spec + ".tla"]
    t0 = time.time()
    try:
        p = subprocess.run(cmd, cwd=d, env=e, timeout=timeout, stdout=subprocess.PIPE, stderr=subprocess.STDOUT, text=True)
    except subprocess.TimeoutExpired as ex:
        out = ex.stdout if isinstance(ex.stdout, str) else (ex.stdout or b"").decode("utf-8", "replace")
        raise Inconclusive("TLC timeout after %ds on %s\n%s" % (timeout, spec, out[-2000:]))
    out = p.stdout
    res = {"rc": p.returncode, "out": out, "wall": time.time() - t0, "dir": d}
    m = re.search(r"(\d+) states generated, (\d+) distinct states found", out)
    if m:
        res["generated"], res["distinct"] = int(m.group(1)), int(m.group(2))
    m = re.search(r"depth of the complete state graph search is (\d+)", out)
    if m:
        res["depth"] = int(m.group(1))
    res["ok"] = "Model checking completed. No error has been found." in out
    return res


def tlc_exhaustive(spec, cfg=None, workers=None, timeout=1800, extra=(), heap=None):
    """Exhaustive check; returns stats dict. A spec-level counterexample is reported in res['ok']=False."""
    return run_tlc(spec, cfg, workers=workers or NCPU, timeout=timeout, extra=extra, heap=heap)


def count_lines(path):
    n = 0
    with open(path, "rb") as f:
        for _ in f:
            n += 1
    return n


def tlc_trace(spec, trace_path, cfg=None, timeout=900, dfs=True, env=None):
    """Validate one ndjson file; returns (hwm, total, result). hwm == total means accepted."""
    e = {"TRACE": trace_path}
    if env:
        e.update(env)
    r = run_tlc(spec, cfg, workers=1, env=e, timeout=timeout, dfs=dfs)
    m = re.findall(r'<<"HWM", (\d+), (\d+)>>', r["out"])
    if not m:
        raise Inconclusive("trace validation of %s with %s gave no HWM line:\n%s" % (trace_path, spec, r["out"][-3000:]))
    hwm, total = int(m[-1][0]), int(m[-1][1])
    return hwm, total, r


def split_traces(path):
    """Split an ndjson file into runs (lists of raw lines), each starting at a reset event."""
    runs, cur = [], None
    with open(path) as f:
        for line in f:
            if line.startswith('{"ev":"reset"'):
                cur = [line]
                runs.append(cur)
            elif cur is not None:
                cur.append(line)
    return runs


def validate_runs(spec, runs, shards=None, cfg=None, timeout=900, label="", env=None, max_reject=25):
    """Validate a list of runs (each a list of ndjson lines) with TLC, sharded over
    the cores. Returns (rejected, stats): rejected = list of (run_index, event_index_in_run, raw lines);
    stats has generated/distinct state totals and events validated."""
    shards = shards or min(NCPU, max(1, len(runs) // 4))
    d = mktemp("verif-traces-")
    buckets = [[] for _ in range(shards)]
    for i, r in enumerate(runs):
        buckets[i % shards].append(i)
    rejected, stats = [], {"generated": 0, "distinct": 0, "events": 0, "tlc_runs": 0, "wall": 0.0}

    def work(si):
        idxs = list(buckets[si])
        rej = []
        st = {"generated": 0, "distinct": 0, "events": 0, "tlc_runs": 0}
        rounds = 0
        while idxs:
            rounds += 1
            path = os.path.join(d, "shard%d_%d.ndjson" % (si, rounds))
            offs = []
            with open(path, "w") as f:
                n = 0
                for i in idxs:
                    offs.append((n, i))
                    f.writelines(runs[i])
                    n += len(runs[i])
            hwm, total, r = tlc_trace(spec, path, cfg=cfg, timeout=timeout, env=env)
            st["generated"] += r.get("generated", 0)
            st["distinct"] += r.get("distinct", 0)
            st["tlc_runs"] += 1
            if hwm >= total:
                st["events"] += total
                break
            # locate the rejected run: the one containing line hwm (0-based index of the first unmatched line)
            bad = None
            for j, (off, i) in enumerate(offs):
                if off <= hwm:
                    bad = j
            off, i = offs[bad]
            st["events"] += off
            rej.append((i, hwm - off, runs[i]))
            idxs = idxs[bad + 1:]
            if len(rej) >= max_reject:
                break
        return rej, st

    t0 = time.time()
    with concurrent.futures.ThreadPoolExecutor(max_workers=shards) as ex:
        for rej, st in ex.map(work, range(shards)):
            rejected += rej
            for k in st:
                stats[k] += st[k]
    stats["wall"] = time.time() - t0
    return rejected, stats


# ---------------------------------------------------------------- evidence / verdicts

def seed():
    try:
        return int(os.environ.get("VERIF_SEED", "1"))
    except ValueError:
        return 1


def tier_from(argv_tier):
    t = os.environ.get("VERIF_TIER") or argv_tier or "quick"
    return "thorough" if t.startswith("t") else "quick"


def load_known():
    p = os.path.join(VERIF, "known_findings.json")
    if os.path.exists(p):
        return json.load(open(p))
    return {"findings": [], "fixed": []}


def write_replay(pid, payload):
    blob = json.dumps(payload, sort_keys=True).encode()
    h = hashlib.sha1(blob).hexdigest()[:12]
    d = os.path.join(os.environ.get("VERIF_OUT_DIR", VERIF), "replays", pid)
    os.makedirs(d, exist_ok=True)
    p = os.path.join(d, h + ".json")
    with open(p, "w") as f:
        json.dump(payload, f, indent=1)
    return p


def write_evidence(pid, tier, level, coverage, wall, violations, assumptions):
    ev = {"property_id": pid, "tier": tier, "seed": seed(), "level": level, "coverage": coverage,
          "assumptions": assumptions, "wall_s": round(wall, 2), "violations": violations}
    d = os.path.join(os.environ.get("VERIF_OUT_DIR", VERIF), "evidence")
    os.makedirs(d, exist_ok=True)
    with open(os.path.join(d, pid + ".json"), "w") as f:
        json.dump(ev, f, indent=1)
    return ev


# ---------------------------------------------------------------- behaviours out of TLC

def tlc_simulate(spec, cfg, num, depth, workers=8, timeout=900, var="outj"):
    """Run `tlc -simulate file=...` and return the behaviours as lists of decoded JSON observations
    (the spec carries each step's observation as a JSON string in variable `var`)."""
    d = stage_spec(spec, cfg)
    os.makedirs(os.path.join(d, "beh"))
    per = max(1, num // workers)
    r = run_tlc(spec, cfg, workers=workers, timeout=timeout, workdir=d,
                extra=["-simulate", "file=beh/b,num=%d" % per, "-depth", str(depth), "-seed", str(seed())])
    if "Error:" in r["out"] and "Invariant" in r["out"]:
        raise Inconclusive("simulation of %s violates an invariant of the specification:\n%s" % (spec, r["out"][-3000:]))
    behs = []
    pat = re.compile(r'/\\ ' + var + r' = ("(?:[^"\\]|\\.)*")')
    for fn in sorted(os.listdir(os.path.join(d, "beh"))):
        txt = open(os.path.join(d, "beh", fn)).read()
        evs = []
        for m in pat.finditer(txt):
            s = json.loads(m.group(1))
            if s:
                evs.append(json.loads(s))
        if evs:
            behs.append(evs)
    m = re.search(r"(\d+) states checked", r["out"])
    r["generated"] = int(m.group(1)) if m else 0
    r["distinct"] = 0
    return behs, r

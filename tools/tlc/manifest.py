#!/usr/bin/env python3
"""Regenerates /verif/MANIFEST.json from the table below (run after adding a check)."""
import json, os

VERIF = os.path.dirname(os.path.dirname(os.path.dirname(os.path.abspath(__file__))))

SEQ_NOTE = ("Trusted: TLC, the import-substitution instrumenter (time/sync/sync.atomic/runtime -> shim packages, no other byte of repository code "
            "changed), the virtual clock shim, the Go harness that records observations. Exhaustive part bounded (see evidence.exhaustive_scope); "
            "outside it seeded exploration of the real code validated by TLC. 32-bit TLC integers: ns and s regimes.")

CLAIMED = {
    "C01": dict(
        technique="TLA+ property-level machine CacheSem; TLC exhaustive check of implementation-shaped CacheImplSeq against it; TLC-generated behaviours replayed on the real code; every real run trace-validated by TLC (Trace_CacheSeq, aspects view+vis)",
        text="model_checking: TLC exhaustively checks the code-shaped sequential cache model against the declarative visibility semantics (all call sequences within bounds, clock advances landing on e-1/e/e+1), and every execution of the real Cache/CacheOf (TLC-simulated behaviours, all programs of <=3 calls over a one-key menu, seeded random programs in ns and s regimes, four container instantiations) is validated call by call by TLC against the property-level machine under a virtual clock.",
        design_ref="5 C01, 2.2, 3.5, 3.7"),
    "C09": dict(
        technique="TLA+ CacheSem Expiration/NormDefault; TLC exhaustive TTLCache over duration and default sets; trace validation of reported instants/TTLs/defaults with exact equality under a virtual clock (aspect instant)",
        text="model_checking: expiration arithmetic (sentinels, defaults < 1, re-arm table) is model-checked exhaustively on the code-shaped model and every instant/TTL/default the real code reports is compared with = against the specification's integers in ns and s regimes for all constructor variants.",
        design_ref="5 C09, 2.2"),
}


CONC_NOTE = ("Trusted: TLC, the import-substitution instrumenter, the cooperative scheduler (one virtual thread runs at a time; preemption only before "
             "sync/atomic calls, Mutex/Cond operations, runtime.Gosched and harness user functions - behaviours needing a switch between two plain accesses "
             "exist only under a data race, which is C14's subject), sequential consistency of sync/atomic. Layout pins replace the hash function in the scratch copy only. "
             "Explored: the listed scenario families x dfs(preemption bound)/PCT/random schedules; every distinct history is decided by TLC (linearization search).")

CLAIMED.update({
    "C02": dict(technique="TLA+ CacheLin (linearizability w.r.t. CacheSem with DERemove/eviction-queue steps) as oracle; TLC-exhaustive CacheImpl (cache methods composed over an atomic map, every terminal history judged by CacheLin); real-code histories from a deterministic cooperative scheduler (dfs preemption-bounded, PCT) validated by TLC trace validation with searched linearization points",
                text="model_checking: every distinct history the scheduler extracts from the real Cache/CacheOf over the scenario families (DeleteExpired/janitor-pass vs writers, lazy delete vs writers, read-modify-write racers on live/expired/absent keys, removers, Clear, callback swaps) is checked by TLC against the linearizable TTL-map machine; a final quiescent observation compares physical content.",
                design_ref="5 C02, 2.3, 3.3, 3.7", note=CONC_NOTE),
    "C03": dict(technique="TLA+ MapLin (linearizability w.r.t. MapSem) as oracle; TLC-exhaustive CLHT.tla (PlusCal, one label per sync step, annotation-free linearizability at terminal states, 16 design switches refuted); Trace_CLHT conformance of real step logs; scheduler-enumerated interleavings at sync/atomic granularity with pinned bucket layout and real grow/shrink thresholds; TLC trace validation with searched linearization points",
                text="model_checking: histories of the real Map under dfs(2/3)-bounded and PCT schedules over families F1-F15 (slot reuse, update, append, grow, shrink, Clear, two resizers, delete||insert, racers, Range) are each decided by TLC against the linearizable map machine, including quiescent Load/Size/Range.",
                design_ref="5 C03/C04, 2.3, 3.3", note=CONC_NOTE),
    "C04": dict(technique="as C03 on MapOf for key types string/int/struct with a pinned (colliding) hasher: same bucket and same 7-bit h2",
                text="model_checking: as C03 for MapOf[string,any], MapOf[int,int], MapOf[struct,string]; the pinned hasher forces bucket and h2 collisions for every table generation.",
                design_ref="5 C03/C04", note=CONC_NOTE),
    "C05": dict(technique="MapLin/CacheLin result + user-function-count clauses (aspects fn, view) on scheduler histories with k racers; CacheSem sequential fn-count clause; exhaustive TTLCache model",
                text="model_checking: k=2..3 (thorough 5) racers of LoadOrStore/LoadOrCompute/GetOrSet/GetOrCompute/Compute on absent, live and expired-uncleaned keys with bucket-mate writers and a grow between attempt and retry; user functions count their invocations and yield inside; every history is decided by TLC (exactly one loaded=false, same value for all, fn count = what the linearization dictates).",
                design_ref="5 C05", note=CONC_NOTE),
    "C06": dict(technique="CacheLin eviction queue (each instance at most once, only by the call that removed it, callback in force) + CacheSem sequential ledger clause (aspect evict); scheduler histories of overlapping removers, re-entrant callbacks",
                text="model_checking: callback ledger events of the real cache under overlapping DeleteExpired/Delete/GetAndDelete/Set/Compute, callback swaps and re-entrant callbacks are matched by TLC against queued evictions of the linearizable machine; sequential traces check fired-iff-removed against Count deltas; the exhaustive TTLCache model checks the ledger clause on the code-shaped model.",
                design_ref="5 C06", note=CONC_NOTE),
    "C07": dict(technique="MapLin/CacheLin Range contract (per-key candidate sets since traversal start, at most once, completeness for stable keys) on scheduler histories with mutating visitors; sequential exact-visit clause (aspect vis)",
                text="model_checking: visit events of Range/Items on all four containers under concurrent stores, deletes, grow, Clear and mutating/stopping visitors are checked by TLC against the traversal contract; sequentially Range/Items must equal the visible set exactly.",
                design_ref="5 C07", note=CONC_NOTE),
    "C08": dict(technique="MapLin/CacheLin Quiesce clause (Size = |abstract map| = Range visits; Count = physical entries via access file) after every concurrent run; sequential Count bounds/equalities (aspect count)",
                text="model_checking: after every scheduler run of the map and cache families a quiescent observation (Size/Count, Range visit count, physical entries) must equal the abstract content TLC derives from the linearization; sequential traces check Count after every call.",
                design_ref="5 C08", note=CONC_NOTE),
    "C13": dict(technique="scheduler-observed deadlock / fair-budget exhaustion on all families plus waiter/early-return/re-entrancy families; histories also validated by MapLin/CacheLin",
                text="model_checking: every schedule explored (dfs preemption-bounded, PCT) must end with all threads returned; a run in which some thread is unfinished and none is enabled, or the fair step budget is exhausted, is a violation with a replayable schedule. Families force waiters to arrive around a resize, revisit a bucket after every early return and call back into the container from visitors and evicted callbacks.",
                design_ref="5 C13", note=CONC_NOTE),
    "C16": dict(technique="CLHT_Freeze (TLC: with all other threads frozen at any reachable state the reader is never blocked and finishes within 40 own steps); solo strategy: writer parked before each of its synchronisation operations, reader runs alone within 200 own steps; resulting history validated by MapLin/CacheLin with the writer's call still open",
                text="model_checking: for every writer kind x reader kind (same key, bucket mate, unrelated, absent) on the four containers, the writer is stopped after each possible number of own steps (exhaustive over its yield points) and the reader must complete alone; TLC checks the value returned is a linearizable one.",
                design_ref="5 C16", note=CONC_NOTE),
    "C11": dict(technique="TLA+ MapSem/CacheSem as reference; trace validation of real runs under presize hints, one-chain layout pins, bulk threshold crossings, fresh processes; pairwise identical observations across configurations",
                text="model_checking: every observation of Map/MapOf/Cache/CacheOf runs under hints {-1,0,1,96,97,1000,(100000)}, pinned layouts (slot empty / chain full / new bucket) and bulk inserts/deletes crossing all grow and shrink thresholds is validated by TLC against the plain-map semantics; the same programs in fresh processes (different hash key), under another hint and unpinned must give identical traces.",
                design_ref="5 C11"),
})

CLAIMED.update({
    "C10": dict(technique="TLA+ MapSem/CacheSem on abstract key names as reference (results depend on the == class only); trace validation of real MapOf/CacheOf runs over a key-type catalogue with two == representations per key, Scribble steps, default and fully colliding hashers; panics are observations no spec action matches",
                text="model_checking: sequential programs over 22 key types (every comparable kind incl. interface-typed keys with nil and pointer-shaped dynamic values, +-0, padded and nested structs) are executed with alternating equal representations under the default hasher and under hashers forced to collide completely / in one bucket; every observation is validated by TLC against the plain-map semantics.",
                design_ref="5 C10"),
    "C12": dict(technique="both twins are implementations of the same TLA+ machines (CacheSem/MapSem/CacheLin); every program is run on both and validated by TLC, plus event-by-event equality of the two traces",
                text="model_checking: random (ns and s regimes), small-scope exhaustive and layout/bulk programs are executed on Cache and CacheOf[string,any], Map and MapOf[string,any]; both traces are validated by TLC and must be equal event by event (results, ledger, Items/Range as sets, Count/Size, physical content); concurrent scenario families run on both cache twins.",
                design_ref="5 C12"),
})

CLAIMED.update({
    "C14": dict(category="exploration",
                technique="Go race detector on natively parallel runs of the uninstrumented tree (external observer) + payload checksums; natively parallel stamped histories validated by TLC against MapLin/CacheLin; access-mode table extracted from the tree compared with the table the specification assumes",
                text="exploration with a model-checked oracle for histories: -race builds of the unmodified working tree run seeded parallel programs (2..64 goroutines, all four containers, janitor on a 1 ms interval, settings swapped concurrently, Range/Clear/resizes) - any race report with a frame in repository code or any corrupted payload is a violation; small native programs are stamped with an atomic counter and their histories decided by TLC. TLC cannot decide races of a compiled binary; the specification's part is the linearizability oracle and the access-mode table (drift only).",
                design_ref="5 C14, 7.7",
                note="Trusted: the Go race detector (reports only races on executions that occur), the harness's checksum discipline, TLC for the history oracle. Coverage is sampling of schedules by the OS scheduler under several GOMAXPROCS values and seeds."),
    "C15": dict(technique="TLA+ CacheLife + TLC-exhaustive CacheLifeMC (janitor as ticker-driven pass, interval normalisation, exactly-once eviction per pass) with trace validation of real runs under a virtual ticker; lifecycle observation (goroutines, tickers, finalisers) after GC",
                text="model_checking: for every constructor variant x interval {negative, 0, positive, default} x callback, a scripted life (stores, clock advances landing before/on/after ticks, accesses, manual DeleteExpired) is executed on the real code with the janitor's ticker driven by the virtual clock; Count and the callback ledger after every step are validated by TLC against CacheLife. Dropped caches must lose their janitor goroutine and ticker and let their contents be finalised (bounded GC wait, INCONCLUSIVE if the baseline finaliser does not run).",
                design_ref="5 C15, 2.6",
                note="Trusted: TLC, the virtual ticker shim, bounded real-time waits for the native janitor goroutine (5 s) and for GC/finalisers (20 s)."),
})

NOT_YET = "check not built yet (work in progress; see DESIGN.md section 9)"


def main():
    props = [json.loads(l) for l in open(os.path.join(VERIF, "properties.jsonl"))]
    m = {
        "version": 1,
        "setup_cmd": "./check setup",
        "hooks": {
            "guard": "verif",
            "enable": "no hook is committed to /repo: every check copies /repo's working tree to a scratch dir and rewrites imports (time, sync, sync/atomic, runtime -> shim packages) with tools/instrument; in-package access files are added to the scratch copy only",
            "baseline_off_cmd": "cd /repo && go test -vet=off -count=1 -timeout 25m ./...",
            "source_commits": [],
            "add_only": True,
        },
        "engines": [
            {"name": "tlc", "path": "/usr/local/bin/tlc", "serves_properties": sorted(CLAIMED), "kind_free_text": "TLC 1.8 explicit-state model checker: exhaustive runs of the specifications, simulation for behaviour generation, trace validation"},
            {"name": "harness", "path": "tools/harness", "serves_properties": sorted(CLAIMED), "kind_free_text": "Go driver built inside an instrumented scratch copy of /repo (virtual clock, deterministic cooperative scheduler)"},
        ],
        "checks": [],
        "not_applicable": [],
        "notes": "Verdicts come only from executions of the real code rejected by a property-level TLA+ machine (or scheduler-observed deadlock/budget). See DESIGN.md section 4.",
    }
    for p in props:
        pid = p["id"]
        if pid in CLAIMED:
            c = CLAIMED[pid]
            m["checks"].append({
                "property_id": pid,
                "quick_cmd": "./check %s quick" % pid,
                "thorough_cmd": "./check %s thorough" % pid,
                "evidence_file": "evidence/%s.json" % pid,
                "replay_cmd_template": "./check %s --replay {path}" % pid,
                "engine": "tlc",
                "level_claimed": {"category": c.get("category", "model_checking"), "text": c["text"], "design_ref": c["design_ref"]},
                "level_note": c.get("note", SEQ_NOTE),
                "technique": c["technique"],
            })
        else:
            m["not_applicable"].append({"property_id": pid, "reason": NOT_YET})
    json.dump(m, open(os.path.join(VERIF, "MANIFEST.json"), "w"), indent=1)
    print("MANIFEST.json: %d checks, %d not applicable" % (len(m["checks"]), len(m["not_applicable"])))


if __name__ == "__main__":
    main()

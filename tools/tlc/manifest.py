#!/usr/bin/env python3
"""Regenerates /verif/MANIFEST.json from the table below (run after adding a check)."""
import json, os

VERIF = os.path.dirname(os.path.dirname(os.path.dirname(os.path.abspath(__file__))))

SEQ_NOTE = ("Trusted: TLC, the import-substitution instrumenter (time/sync/sync.atomic/runtime -> shim packages, no other byte of repository code "
            "changed), the virtual clock shim, the Go harness that records observations. Exhaustive part bounded (see evidence.exhaustive_scope); "
            "outside it seeded exploration of the real code validated by TLC. 32-bit TLC integers: ns and s regimes.")

CLAIMED = {
    "C01": dict(
        technique="TLA+ property-level machine CacheSem; TLC exhaustive check of implementation-shaped CacheImplSeq against it; TLC-generated behaviours replayed on the real code; every real run trace-validated by TLC (Trace_CacheSeq, aspects view+vis)",
        text="model_checking: TLC exhaustively checks the code-shaped sequential cache model against the declarative visibility semantics (all call sequences within bounds, clock advances landing on e-1/e/e+1), and every execution of the real Cache/CacheOf (TLC-simulated behaviours, all programs of <=3 calls over a one-key menu, seeded random programs in ns and s regimes, four container instantiations) is validated call by call by TLC against the property-level machine under a virtual clock.",
        design_ref="5 C01, 2.2, 3.5, 3.7"),
    "C09": dict(
        technique="TLA+ CacheSem Expiration/NormDefault; TLC exhaustive TTLCache over duration and default sets; trace validation of reported instants/TTLs/defaults with exact equality under a virtual clock (aspect instant)",
        text="model_checking: expiration arithmetic (sentinels, defaults < 1, re-arm table) is model-checked exhaustively on the code-shaped model and every instant/TTL/default the real code reports is compared with = against the specification's integers in ns and s regimes for all constructor variants.",
        design_ref="5 C09, 2.2"),
}

NOT_YET = "check not built yet (work in progress; see DESIGN.md section 9)"


def main():
    props = [json.loads(l) for l in open(os.path.join(VERIF, "properties.jsonl"))]
    m = {
        "version": 1,
        "setup_cmd": "./check setup",
        "hooks": {
            "guard": "verif",
            "enable": "no hook is committed to /repo: every check copies /repo's working tree to a scratch dir and rewrites imports (time, sync, sync/atomic, runtime -> shim packages) with tools/instrument; in-package access files are added to the scratch copy only",
            "baseline_off_cmd": "cd /repo && go test -vet=off -count=1 -timeout 25m ./...",
            "source_commits": [],
            "add_only": True,
        },
        "engines": [
            {"name": "tlc", "path": "/usr/local/bin/tlc", "serves_properties": sorted(CLAIMED), "kind_free_text": "TLC 1.8 explicit-state model checker: exhaustive runs of the specifications, simulation for behaviour generation, trace validation"},
            {"name": "harness", "path": "tools/harness", "serves_properties": sorted(CLAIMED), "kind_free_text": "Go driver built inside an instrumented scratch copy of /repo (virtual clock, deterministic cooperative scheduler)"},
        ],
        "checks": [],
        "not_applicable": [],
        "notes": "Verdicts come only from executions of the real code rejected by a property-level TLA+ machine (or scheduler-observed deadlock/budget). See DESIGN.md section 4.",
    }
    for p in props:
        pid = p["id"]
        if pid in CLAIMED:
            c = CLAIMED[pid]
            m["checks"].append({
                "property_id": pid,
                "quick_cmd": "./check %s quick" % pid,
                "thorough_cmd": "./check %s thorough" % pid,
                "evidence_file": "evidence/%s.json" % pid,
                "replay_cmd_template": "./check %s --replay {path}" % pid,
                "engine": "tlc",
                "level_claimed": {"category": c.get("category", "model_checking"), "text": c["text"], "design_ref": c["design_ref"]},
                "level_note": c.get("note", SEQ_NOTE),
                "technique": c["technique"],
            })
        else:
            m["not_applicable"].append({"property_id": pid, "reason": NOT_YET})
    json.dump(m, open(os.path.join(VERIF, "MANIFEST.json"), "w"), indent=1)
    print("MANIFEST.json: %d checks, %d not applicable" % (len(m["checks"]), len(m["not_applicable"])))


if __name__ == "__main__":
    main()

"""Per-property checks. Every verdict comes from an execution of the real code
(instrumented scratch copy of /repo's working tree) rejected by a property-level
TLA+ machine, or from the scheduler observing a deadlock / budget exhaustion."""
import copy, json, os, random, time

import gen
import lib
from lib import Inconclusive

CONTAINERS_CACHE = [("Cache", "", ""), ("CacheOf", "string", "any"), ("CacheOf", "int", "int"), ("CacheOf", "struct", "string")]
CONTAINERS_MAP = [("Map", "", ""), ("MapOf", "string", "any"), ("MapOf", "int", "int"), ("MapOf", "struct", "string")]


class Ctx:
    def __init__(self, pid, tier):
        self.pid, self.tier = pid, tier
        self.t0 = time.time()
        self.violations = []
        self.known = []
        self.drift = []
        self.cov = {"states": 0, "transitions": 0, "traces_validated_against_impl": 0, "samples": [], "exhaustive": False,
                    "tlc_models": [], "events_validated": 0, "impl_conformance": "not-run"}
        self.assumptions = []
        self.level = "model_checking"
        self.kf = lib.load_known()
        self._scratch = None

    @property
    def thorough(self):
        return self.tier == "thorough"

    def scratch(self):
        if self._scratch is None:
            self._scratch = lib.Scratch()
            self.cov["access_files"] = self._scratch.access
            if not self._scratch.access:
                off = [k for k, v in self._scratch.features.items() if not v]
                self.drift.append("in-package access files do not compile against the working tree; degraded features: %s (pins = layout pinning of Map/MapOf/Cache, cpins = of CacheOf, phys = physical cache items, project = table projection / CLHT conformance)" % ", ".join(off))
        return self._scratch

    def add_model(self, name, res):
        """Record an exhaustive / simulation TLC run of a specification."""
        if not res.get("ok"):
            # a counterexample in a specification is not a verdict about the code
            raise Inconclusive("TLC reports an error in specification %s (not a verdict about the code):\n%s" % (name, res["out"][-3000:]))
        self.cov["states"] += res.get("distinct", 0)
        self.cov["transitions"] += res.get("generated", 0)
        self.cov["model_states"] = self.cov.get("model_states", 0) + res.get("distinct", 0)
        self.cov["tlc_models"].append({"spec": name, "distinct": res.get("distinct"), "generated": res.get("generated"), "depth": res.get("depth"), "wall_s": round(res["wall"], 1)})

    def sample(self, s):
        if len(self.cov["samples"]) < 6:
            self.cov["samples"].append(s)

    def violation(self, payload, what):
        payload = dict(payload, property=self.pid)
        for f in self.kf.get("findings", []):
            if f.get("property") == self.pid and finding_matches(f, payload):
                line = "KNOWN-FINDING: property=%s %s" % (self.pid, f.get("what", ""))
                if line not in self.known:
                    self.known.append(line)
                    print(line)
                return
        path = lib.write_replay(self.pid, payload)
        self.violations.append(path)
        print("VIOLATION property=%s replay=%s" % (self.pid, path))
        print("  " + what[:600])

    def finish(self):
        wall = time.time() - self.t0
        self.cov["known_findings_hit"] = self.known
        self.cov["spec_drift"] = self.drift
        self.cov["states_note"] = ("states/transitions = distinct/generated states TLC explored in this run: exhaustive and simulated models (see tlc_models) "
                                   "plus the trace-validation searches over recorded real-code runs (trace_validation_states)")
        for d in self.drift:
            print("SPEC-DRIFT property=%s %s" % (self.pid, d))
        lib.write_evidence(self.pid, self.tier, self.level, self.cov, wall, len(self.violations), self.assumptions)
        print("%s %s: %d violation(s), %d traces validated against the implementation, %d spec states, %.1fs" % (
            self.pid, self.tier, len(self.violations), self.cov["traces_validated_against_impl"], self.cov["states"], wall))
        return 1 if self.violations else 0


def finding_matches(f, payload):
    pat = f.get("pattern", {})
    ev = payload.get("event", {})
    for k, v in pat.items():
        if k.startswith("event."):
            if ev.get(k[6:]) != v:
                return False
        elif payload.get(k) != v:
            return False
    return True


# ------------------------------------------------------------------ sequential cache traces

def instantiate(prog, kind, keytype, valtype):
    p = copy.deepcopy(prog)
    c = p.get("cache") or p.get("map")
    c["kind"], c["keytype"], c["valtype"] = kind, keytype, valtype
    return p


def run_seq(ctx, programs, spec, prop, label):
    """Execute programs on the real code, validate every run with TLC against `spec` restricted to the
    aspects of `prop`. Returns the list of runs (raw lines) for twin comparison."""
    sc = ctx.scratch()
    d = lib.mktemp("verif-seq-")
    pin = os.path.join(d, "programs.json")
    out = os.path.join(d, "trace.ndjson")
    json.dump(programs, open(pin, "w"))
    sc.run("seq", inp=pin, out=out, timeout=3600)
    runs = lib.split_traces(out)
    if len(runs) != len(programs):
        raise Inconclusive("harness produced %d runs for %d programs" % (len(runs), len(programs)))
    rejected, st = lib.validate_runs(spec, runs, env={"PROP": prop}, timeout=3600)
    ctx.cov["traces_validated_against_impl"] += len(runs)
    ctx.cov["events_validated"] += st["events"]
    ctx.cov["states"] += st["distinct"]
    ctx.cov["transitions"] += st["generated"]
    ctx.cov["trace_validation_states"] = ctx.cov.get("trace_validation_states", 0) + st["distinct"]
    ctx.cov.setdefault("trace_validation", []).append({"label": label, "spec": spec, "runs": len(runs), "events": st["events"], "tlc_runs": st["tlc_runs"], "wall_s": round(st["wall"], 1)})
    if runs:
        ctx.sample({"label": label, "first_events": [json.loads(x) for x in runs[0][1:4]]})
    for (i, evi, lines) in rejected:
        ev = json.loads(lines[evi]) if evi < len(lines) else {}
        ctx.violation({"kind": "seq", "spec": spec, "aspects_of": prop, "program": programs[i], "rejected_event_index": evi, "event": ev,
                       "prefix": [json.loads(x) for x in lines[max(0, evi - 6):evi]]},
                      "%s: run %d (%s) rejected by %s at event %d: %s" % (label, i, programs[i].get("note", ""), spec, evi, json.dumps(slim(ev))))
    return runs


def slim(ev):
    return {k: v for k, v in ev.items() if v not in ("", 0, False, [], None) or k in ("ok", "rv")}


def cache_programs(ctx, n, length, units=(1,), nkeys=(3, 5, 8), slowfn=0.0):
    rng = random.Random(lib.seed() * 7919 + 17 + (1 if slowfn else 0))
    progs = []
    for i in range(n):
        unit = units[i % len(units)]
        base = gen.cache_program(rng, "Cache", "", "", unit=unit, length=length, nkeys=nkeys[i % len(nkeys)], note="rand#%d unit=%d%s" % (i, unit, " slowfn" if slowfn else ""), slowfn=slowfn)
        progs.append(base)
    return progs


def exhaustive_cache_model(ctx):
    cfg = "TTLCache.cfg" if ctx.thorough else "TTLCache_quick.cfg"
    res = lib.tlc_exhaustive("TTLCache", cfg, timeout=3600)
    ctx.add_model("TTLCache/" + cfg, res)
    if ctx.thorough:
        # the same model in the seconds regime (sentinels -2 and -1 units)
        res = lib.tlc_exhaustive("TTLCache", "TTLCache_s.cfg", timeout=3600)
        ctx.add_model("TTLCache/TTLCache_s.cfg", res)
    ctx.cov["exhaustive"] = True
    ctx.cov["exhaustive_scope"] = "TLC exhaustive: CacheImplSeq against CacheSem, %s (all call sequences over the menu within MaxW value-creating calls and the clock bound)" % cfg


def behaviours_to_programs(behs, kind="Cache", kt="", vt="", unit=1):
    progs = []
    for b in behs:
        h = b[0]
        cfg = {"kind": kind, "keytype": kt, "valtype": vt, "ctor": "New", "hasdef": True, "def": h["def"] // unit, "hasintv": True, "interval": 0, "cb": h["cb"]}
        ops = []
        for e in b[1:]:
            if e["ev"] == "tick":
                ops.append({"op": "Tick", "d": e["d"]})
            else:
                ops.append({"op": e["op"], "k": e["k"], "v": e["v"], "d": e["d"], "fn": e["fn"]})
        progs.append({"cache": cfg, "unit": unit, "ops": ops, "note": "tlc-simulate"})
    return progs


CMP_FIELDS = ("op", "k", "rv", "ok", "x", "n", "fo", "fl", "c0", "c1", "now")


def compare_predicted(ctx, behs, runs, label):
    """Conformance (not a verdict): the real observations must equal the ones the implementation-shaped
    model predicted for the same program."""
    diffs = 0
    for b, lines in zip(behs, runs):
        for pe, raw in zip(b[1:], lines[1:]):
            re_ = json.loads(raw)
            if pe["ev"] == "tick":
                continue
            bad = [f for f in CMP_FIELDS if pe.get(f) != re_.get(f)]
            if sorted((x["k"], x["v"], x["cb"]) for x in pe["evs"]) != sorted((x["k"], x["v"], x["cb"]) for x in re_["evs"]):
                bad.append("evs")
            if sorted((x["k"], x["v"]) for x in pe["vis"]) != sorted((x["k"], x["v"]) for x in re_["vis"]):
                if not (pe["op"] == "Range" and pe["fn"].startswith("stop") and len(pe["vis"]) == len(re_["vis"])):
                    bad.append("vis")
            if bad:
                diffs += 1
                if diffs <= 3:
                    ctx.drift.append("%s: implementation-shaped model CacheImplSeq predicts %s, real code gives %s (fields %s)" % (
                        label, json.dumps(slim(pe)), json.dumps(slim(re_)), bad))
                break
    return diffs


def small_scope_programs(depth, kind, kt, vt):
    """All call sequences of length <= depth over a one-key menu, for two configurations."""
    import itertools
    NOEXP, DEFEXP = gen.NOEXP_NS, gen.DEFEXP_NS
    menu = [("Set", 1), ("Set", NOEXP), ("Set", DEFEXP), ("Get", 0), ("GetWithTTL", 0), ("GetWithExpiration", 0), ("GetOrSet", 1), ("GetAndSet", 1),
            ("GetAndRefresh", 1), ("GetAndRefresh", 0), ("GetOrCompute", 1), ("Compute:set", 1), ("Compute:del", 1), ("Compute:delret", 1),
            ("GetAndDelete", 0), ("Delete", 0), ("DeleteExpired", 0), ("Items", 0), ("Tick", 1), ("Tick", 2)]
    readers = ("Tick", "Get", "GetWithTTL", "GetWithExpiration", "Items", "DeleteExpired", "Delete", "GetAndDelete")
    progs = []
    for cfgv in ({"hasdef": True, "def": 2, "cb": "cb1"}, {"cb": ""}):
        for L in range(1, depth + 1):
            for seq in itertools.product(menu, repeat=L):
                if seq[0][0] in readers and L > 1:
                    continue  # a read/tick on an empty cache first adds nothing beyond the shorter program
                ops = []
                n = 0
                for (o, d) in seq:
                    n += 1
                    fn = ""
                    if ":" in o:
                        o, fn = o.split(":")
                    if o == "Tick":
                        ops.append({"op": "Tick", "d": d})
                    else:
                        ops.append({"op": o, "k": "k1", "v": "v%d" % n, "d": d, "fn": fn})
                ops += [{"op": "GetWithExpiration", "k": "k1"}, {"op": "Count"}]
                cfg = dict({"kind": kind, "keytype": kt, "valtype": vt, "ctor": "New", "hasintv": True, "interval": 0}, **cfgv)
                progs.append({"cache": cfg, "unit": 1, "ops": ops, "note": "small-scope L=%d" % L})
    return progs


def check_seq_cache(ctx, prop, model=True):
    if model:
        exhaustive_cache_model(ctx)
    # spec -> code: behaviours generated by TLC from the implementation-shaped model
    nb, depth = (96, 30) if not ctx.thorough else (1600, 40)
    behs, r = lib.tlc_simulate("TTLCache", "TTLCache_sim.cfg", nb, depth, workers=8 if not ctx.thorough else 16, timeout=3600)
    ctx.cov["tlc_models"].append({"spec": "TTLCache/TTLCache_sim.cfg (simulate)", "behaviours": len(behs), "states_checked": r.get("generated"), "wall_s": round(r["wall"], 1)})
    ctx.cov["transitions"] += r.get("generated", 0)
    drift = 0
    for (kind, kt, vt) in (CONTAINERS_CACHE[:2] if not ctx.thorough else CONTAINERS_CACHE):
        progs = behaviours_to_programs(behs, kind, kt, vt)
        runs = run_seq(ctx, progs, "Trace_CacheSeq", prop, "%s[%s,%s] TLC behaviours" % (kind, kt, vt))
        drift += compare_predicted(ctx, behs, runs, "%s[%s,%s]" % (kind, kt, vt))
    ctx.cov["impl_conformance"] = "ok" if drift == 0 else "drift(%d behaviours)" % drift
    ctx.cov["behaviours_replayed"] = len(behs)
    # small scope, exhaustively enumerated programs
    for (kind, kt, vt) in CONTAINERS_CACHE[:2]:
        d = 3 if (ctx.thorough or kind == "Cache") else 2
        progs = small_scope_programs(d, kind, kt, vt)
        run_seq(ctx, progs, "Trace_CacheSeq", prop, "%s[%s,%s] small-scope depth %d" % (kind, kt, vt, d))
    # long bucket chains: the whole key set pinned into one chain (entries must survive slot reuse and chain growth)
    prng = random.Random(lib.seed() * 911 + 3)
    pinned = []
    for i in range(12 if not ctx.thorough else 120):
        nk = prng.choice([7, 9, 12])
        p = gen.cache_program(prng, "Cache", "", "", unit=1, length=110, nkeys=nk, note="one-chain nk=%d" % nk)
        p["pin"] = one_chain_pin(["k%d" % (j + 1) for j in range(nk)], same_h=(i % 3 == 0))
        pinned.append(p)
    for (kind, kt, vt) in CONTAINERS_CACHE[:3]:
        run_seq(ctx, [instantiate(p, kind, kt, vt) for p in pinned], "Trace_CacheSeq", prop, "%s[%s,%s] one-chain layouts" % (kind, kt, vt))
    # code -> spec: seeded random programs with boundary-aimed clock advances, ns and s regimes
    n, length = (60, 120) if not ctx.thorough else (1500, 300)
    if drift:
        n *= 2
    base = cache_programs(ctx, n, length, units=(1, 1, 1_000_000_000))
    all_runs = {}
    for (kind, kt, vt) in CONTAINERS_CACHE:
        progs = [instantiate(p, kind, kt, vt) for p in base]
        all_runs[(kind, kt, vt)] = run_seq(ctx, progs, "Trace_CacheSeq", prop, "%s[%s,%s] random" % (kind, kt, vt))
    return base, all_runs


SEQ_ASSUMPTIONS = ["virtual clock: every time.Now/Until/NewTicker of the scratch copy is redirected by import substitution; nothing else of the repository is rewritten",
                   "TLC integers are 32-bit: instants/durations in traces stay below 2^31 units (ns regime and s regime, never mixed in one trace)",
                   "exhaustive part is bounded (2 keys, MaxW value-creating calls, clock bound); beyond it the evidence is seeded exploration validated by TLC"]


def check_c01(ctx):
    check_seq_cache(ctx, "C01")
    ctx.assumptions += SEQ_ASSUMPTIONS


def check_c09(ctx):
    check_seq_cache(ctx, "C09")
    ctx.assumptions += SEQ_ASSUMPTIONS


CHECKS = {"C01": check_c01, "C09": check_c09}


def run(pid, tier):
    ctx = Ctx(pid, tier)
    CHECKS[pid](ctx)
    return ctx.finish()


def replay(pid, path):
    payload = json.load(open(path))
    ctx = Ctx(pid, "quick")
    if payload.get("kind") == "seq" and "crash" in payload:
        run_seq_crashsafe(ctx, [payload["program"]], payload["spec"], payload.get("aspects_of", pid), "replay")
    elif payload.get("kind") == "seq":
        run_seq(ctx, [payload["program"]], payload["spec"], payload.get("aspects_of", pid), "replay")
    else:
        raise Inconclusive("unknown replay kind")
    if ctx.violations:
        print("replay reproduced the rejection")
        return 1
    print("INCONCLUSIVE: replay did not reproduce the rejection")
    return 2


# ------------------------------------------------------------------ sequential map traces (C11, C10, C12 ...)

def one_chain_pin(keys, same_h=False, bucket=5):
    """All given keys in one root bucket chain for every table generation (bucket index bits all equal)."""
    return {"keys": {k: [bucket, 1 if same_h else (i % 120) + 1] for i, k in enumerate(keys)}, "avoid": [bucket]}


def map_programs_c11(ctx, rng):
    progs = []
    n_rand = 24 if not ctx.thorough else 400
    hints = [None, -1, 0, 1, 96, 97, 1000] + ([100000] if ctx.thorough else [])
    for i in range(n_rand):
        nk = rng.choice([3, 6, 12, 40])
        progs.append(gen.map_program(rng, "Map", "", "", length=rng.choice([60, 150]), nkeys=nk, hint=hints[i % len(hints)], note="rand#%d" % i))
    # layout pins: the whole scenario lives in one chain (slot empty / chain full / chain needing a new bucket)
    for nk in (2, 3, 4, 5, 6, 7, 11, 16):
        for same_h in (False, True):
            keys = ["k%d" % (j + 1) for j in range(nk)]
            for rep in range(2 if not ctx.thorough else 12):
                progs.append(gen.map_program(rng, "Map", "", "", length=80, keys=keys, pin=one_chain_pin(keys, same_h),
                                             note="one-chain nk=%d same_h=%s" % (nk, same_h)))
    # one chain on a table that is already above its grow threshold: inserts of absent keys into the full chain resize first
    for nk in (4, 6, 9):
        for rep in range(2 if not ctx.thorough else 10):
            keys = ["k%d" % (j + 1) for j in range(nk)]
            p = gen.map_program(rng, "Map", "", "", length=60, keys=keys, pin=one_chain_pin(keys, rep % 2 == 0), note="one-chain over threshold nk=%d" % nk,
                                weights=[("Load", 6), ("Store", 6), ("LoadOrStore", 6), ("LoadAndStore", 4), ("LoadOrCompute", 10), ("Compute", 12), ("LoadAndDelete", 5), ("Delete", 5), ("Size", 1)])
            p["ops"] = [{"op": "BulkStore", "lo": 1, "hi": 130}] + p["ops"]
            progs.append(p)
    # deterministically at the threshold: ballast of exactly threshold+1 entries (no grow yet: 72+1 for Map, 120+1 for MapOf), one chain filled
    # exactly (3 / 5 slots), then every kind of insert of an absent key into that chain must first grow the table
    for (ballast, fill) in ((73, 3), (121, 5)):
        for ins in ("Store", "LoadOrStore", "LoadAndStore", "LoadOrCompute", "Compute:set", "Compute:setifabsent", "Compute:toggle", "Compute:delret", "LoadAndDelete"):
            keys = ["k%d" % (j + 1) for j in range(fill + 2)]
            ops = [{"op": "BulkStore", "lo": 1, "hi": ballast}] + [{"op": "Store", "k": k, "v": "v%d" % (j + 1)} for j, k in enumerate(keys[:fill])]
            o, _, fn = ins.partition(":")
            ops.append({"op": o, "k": keys[fill], "v": "v90", "fn": fn})
            ops.append({"op": o, "k": keys[fill + 1], "v": "v91", "fn": fn})
            ops += [{"op": "Load", "k": k} for k in keys] + [{"op": "Size"}, {"op": "BulkLoad", "lo": 1, "hi": ballast}]
            progs.append({"map": {"kind": "Map", "keytype": "", "valtype": ""}, "ops": ops,
                          "pin": {"keys": {k: [5, j + 1] for j, k in enumerate(keys)}, "avoid": [5]}, "note": "ballast %d, full chain %d, then %s" % (ballast, fill, ins)})
    # bulk: cross every grow and shrink threshold on the way up and down, with scenario keys interleaved
    N = 3000 if not ctx.thorough else 40000
    for rep in range(2 if not ctx.thorough else 6):
        keys = ["k%d" % (j + 1) for j in range(8)]
        ops = []
        vg = gen.ValGen()

        def scen(n):
            for _ in range(n):
                op = rng.choice(["Store", "Load", "LoadOrStore", "LoadAndDelete", "Compute", "LoadAndStore", "Delete", "LoadOrCompute"])
                o = {"op": op, "k": rng.choice(keys)}
                if op in ("Store", "LoadOrStore", "LoadAndStore", "LoadOrCompute"):
                    o["v"] = vg.next()
                if op == "Compute":
                    o.update(v=vg.next(), fn=rng.choice(gen.COMPUTE_FNS))
                ops.append(o)
        step = N // 6
        lo = 1
        while lo <= N:
            hi = min(N, lo + step - 1)
            ops.append({"op": "BulkStore", "lo": lo, "hi": hi})
            scen(6)
            ops.append({"op": "Size"})
            lo = hi + 1
        ops.append({"op": "BulkLoad", "lo": 1, "hi": N})
        ops.append({"op": "Range", "fn": "all"})
        lo = 1
        while lo <= N:
            hi = min(N, lo + step - 1)
            ops.append({"op": "BulkDelete", "lo": lo, "hi": hi})
            scen(6)
            ops.append({"op": "BulkLoad", "lo": 1, "hi": N})
            lo = hi + 1
        ops += [{"op": "Size"}, {"op": "BulkStore", "lo": 1, "hi": N // 2}, {"op": "Range", "fn": "all"}, {"op": "BulkDelete", "lo": N // 4, "hi": N}, {"op": "Size"}]
        scen(10)
        ops += [{"op": "BulkStore", "lo": 1, "hi": 300}, {"op": "Clear"}, {"op": "Size"}, {"op": "BulkLoad", "lo": 1, "hi": 300}]
        scen(10)
        for k in keys:
            ops.append({"op": "Load", "k": k})
        ops += [{"op": "Range", "fn": "all"}, {"op": "Size"}]
        progs.append({"map": {"kind": "Map", "keytype": "", "valtype": "", "hashint": rep % 2 == 1, "hint": 5000}, "ops": ops, "note": "bulk N=%d rep=%d" % (N, rep)})
    return progs


def small_scope_map_programs(depth, kind, kt, vt, pin=None):
    """All call sequences of length <= depth over a two-key menu (12 calls)."""
    import itertools
    menu = [("Store", "k1", ""), ("Store", "k2", ""), ("Load", "k1", ""), ("LoadOrStore", "k1", ""), ("LoadAndStore", "k1", ""), ("LoadOrCompute", "k2", ""),
            ("Compute", "k1", "toggle"), ("Compute", "k2", "delret"), ("Compute", "k1", "setifabsent"), ("LoadAndDelete", "k1", ""), ("Delete", "k2", ""), ("Clear", "", "")]
    progs = []
    for L in range(1, depth + 1):
        for seq in itertools.product(menu, repeat=L):
            ops = []
            for n, (o, k, fn) in enumerate(seq):
                op = {"op": o}
                if k:
                    op["k"] = k
                if o in ("Store", "LoadOrStore", "LoadAndStore", "LoadOrCompute", "Compute"):
                    op["v"] = "v%d" % (n + 1)
                if fn:
                    op["fn"] = fn
                ops.append(op)
            ops += [{"op": "Load", "k": "k1"}, {"op": "Load", "k": "k2"}, {"op": "Range", "fn": "all"}, {"op": "Size"}]
            p = {"map": {"kind": kind, "keytype": kt, "valtype": vt}, "ops": ops, "note": "small-scope L=%d" % L}
            if pin:
                p["pin"] = pin
            progs.append(p)
    return progs


def strip_header(lines):
    return lines[1:]


def compare_runs(ctx, a, b, label, what):
    """Two executions of the same programs must be identical event by event (header excluded)."""
    n = 0

    def norm(line):
        # iteration order is layout dependent and not part of any property: an early-stopping Range is compared
        # by the number of visits, eviction batches as sets
        if '"Range"' in line and '"stop:' in line:
            e = json.loads(line)
            e["vis"] = len(e["vis"])
            return json.dumps(e, sort_keys=True)
        if '"DeleteExpired"' in line:
            e = json.loads(line)
            e["evs"] = sorted(e["evs"], key=lambda x: (x["k"], x["v"]))
            return json.dumps(e, sort_keys=True)
        return line

    for i, (ra, rb) in enumerate(zip(a, b)):
        if ra[1:] != rb[1:] and [norm(x) for x in ra[1:]] != [norm(x) for x in rb[1:]]:
            n += 1
            j = next((x for x in range(1, min(len(ra), len(rb))) if norm(ra[x]) != norm(rb[x])), 0)
            ctx.violation({"kind": "twin", "label": label, "run": i, "event_index": j, "event": json.loads(ra[j]), "other": json.loads(rb[j])},
                          "%s: run %d differs at event %d: %s vs %s" % (what, i, j, json.dumps(slim(json.loads(ra[j]))), json.dumps(slim(json.loads(rb[j])))))
            if n >= 5:
                break
    ctx.cov["pairs_compared"] = ctx.cov.get("pairs_compared", 0) + len(a)
    return n


def check_c11(ctx):
    rng = random.Random(lib.seed() * 104729 + 11)
    base = map_programs_c11(ctx, rng)
    results = {}
    for (kind, kt, vt) in CONTAINERS_MAP:
        progs = [instantiate(p, kind, kt, vt) for p in base]
        results[(kind, kt, vt)] = run_seq(ctx, progs, "Trace_MapSeq", "C11", "%s[%s,%s] hints/pins/bulk" % (kind, kt, vt))
    # small scope, exhaustively: every call sequence of length <= 3 over a two-key menu, default layout and both keys in one slot-mate chain
    for (kind, kt, vt) in CONTAINERS_MAP[:2]:
        for pin in (None, {"keys": {"k1": [5, 1], "k2": [5, 1]}, "avoid": [5]}):
            progs = small_scope_map_programs(3, kind, kt, vt, pin)
            run_seq(ctx, progs, "Trace_MapSeq", "C11", "%s small-scope depth 3%s" % (kind, " (colliding keys)" if pin else ""))
    # fresh processes: the per-process hash key differs, results must not
    progs = [instantiate(p, "Map", "", "") for p in base]
    ref = results[("Map", "", "")]
    for rep in range(2 if not ctx.thorough else 8):
        runs = run_seq(ctx, progs, "Trace_MapSeq", "C11", "Map fresh process #%d" % (rep + 1))
        compare_runs(ctx, ref, runs, "fresh-process", "same programs in a fresh process (different hash key)")
    # the same call sequence under another presize hint / without the layout pin must give identical observations
    alt = []
    for p in base:
        q = instantiate(p, "Map", "", "")
        q.pop("pin", None)
        q["map"]["hashint"] = True
        q["map"]["hint"] = 777
        alt.append(q)
    runs = run_seq(ctx, alt, "Trace_MapSeq", "C11", "Map other hint, unpinned")
    compare_runs(ctx, ref, runs, "other-hint", "same programs with presize hint 777 and default layout")
    # caches: capacity options and one-chain layouts
    crng = random.Random(lib.seed() * 31 + 5)
    cprogs = []
    for i in range(16 if not ctx.thorough else 200):
        nk = crng.choice([3, 4, 6, 7])
        keys = ["k%d" % (j + 1) for j in range(nk)]
        p = gen.cache_program(crng, "Cache", "", "", unit=1, length=100, nkeys=nk, note="cache one-chain nk=%d" % nk)
        p["pin"] = one_chain_pin(keys, same_h=(i % 2 == 0))
        cprogs.append(p)
    cref = None
    for (kind, kt, vt) in CONTAINERS_CACHE[:2] if not ctx.thorough else CONTAINERS_CACHE:
        runs = run_seq(ctx, [instantiate(p, kind, kt, vt) for p in cprogs], "Trace_CacheSeq", "C11", "%s[%s,%s] one-chain layouts" % (kind, kt, vt))
        cref = cref or runs
    unp = []
    for p in cprogs:
        q = copy.deepcopy(p)
        q.pop("pin", None)
        q["cache"]["hascap"] = True
        q["cache"]["mincap"] = 4096
        unp.append(q)
    runs = run_seq(ctx, unp, "Trace_CacheSeq", "C11", "Cache MinCapacity 4096, default layout")
    # physical content is part of the events and legitimately equal; compare everything
    compare_runs(ctx, cref, runs, "cache-capacity", "same cache programs under MinCapacity 4096 and default layout")
    ctx.assumptions += ["layout pins replace hashString / the MapOf hasher in the scratch copy only (instrumenter renames the originals, wrappers call them when no pin is set)",
                        "ballast keys are handled through aggregated Bulk* observations (hit counts, value-match counts); judgement stays in MapSem",
                        "implementation-shaped exhaustive model for the table (CLHT single-thread) is reported by the C03/C04 checks"]


CHECKS["C11"] = check_c11


# ------------------------------------------------------------------ concurrent histories (scheduler + MapLin / CacheLin)

import scen  # noqa: E402


def run_conc(ctx, scenarios, spec, prop, label, c13=False):
    """Run scenarios under the cooperative scheduler; validate every distinct history with TLC."""
    sc = ctx.scratch()
    d = lib.mktemp("verif-conc-")
    # the harness is single threaded per process: shard scenarios over the cores
    nsh = min(lib.NCPU, len(scenarios))
    shards = [[] for _ in range(nsh)]
    for i, s in enumerate(scenarios):
        shards[i % nsh].append(s)

    def work(i):
        pin = os.path.join(d, "sc%d.json" % i)
        out = os.path.join(d, "h%d.ndjson" % i)
        stp = os.path.join(d, "st%d.json" % i)
        json.dump(shards[i], open(pin, "w"))
        sc.run("conc", inp=pin, out=out, stats=stp, timeout=7200)
        return lib.split_traces(out), json.load(open(stp))

    import concurrent.futures
    runs, stats = [], []
    with concurrent.futures.ThreadPoolExecutor(max_workers=nsh) as ex:
        for r, st in ex.map(work, range(nsh)):
            runs += r
            stats += st
    by_name = {s["name"] + "|" + json.dumps(s["strategy"], sort_keys=True): s for s in scenarios}
    total_runs = sum(s["runs"] for s in stats)
    ctx.cov["schedules_run"] = ctx.cov.get("schedules_run", 0) + total_runs
    ctx.cov["distinct_histories"] = ctx.cov.get("distinct_histories", 0) + len(runs)
    fams = ctx.cov.setdefault("families", {})
    for s in stats:
        f = fams.setdefault(s["scenario"], {"runs": 0, "distinct": 0, "outcomes": {}, "exhausted": False})
        f["runs"] += s["runs"]
        f["distinct"] += s["distinct"]
        f["exhausted"] = f["exhausted"] or s["exhausted"]
        for k, v in s["outcomes"].items():
            f["outcomes"][k] = f["outcomes"].get(k, 0) + v
    # scheduler verdicts (C13 / C16): deadlock, fair-budget exhaustion, panic
    nbad = 0
    for s in stats:
        for b in s.get("bad") or []:
            nbad += 1
            if b.get("outcome") == "panic" and any(x in (b.get("panic") or "") for x in ("bad value id", "unknown compute fn", "unknown cache op", "unknown map op", "idxOfAny")):
                raise Inconclusive("the harness itself panicked in scenario %s: %s" % (s["scenario"], b.get("panic")))
            if c13:
                scn = next((x for x in scenarios if x["name"] == s["scenario"]), None)
                rp = copy.deepcopy(scn)
                rp["strategy"] = {"kind": "replay", "choices": b["choices"]}
                ctx.violation({"kind": "conc-outcome", "scenario": rp, "outcome": b["outcome"], "pending": b["pending"], "tail": b.get("tail")},
                              "%s: scenario %s ended in %s; unfinished threads %s" % (label, s["scenario"], b["outcome"], b["pending"]))
    ctx.cov["bad_outcomes"] = ctx.cov.get("bad_outcomes", 0) + nbad
    rejected, st = lib.validate_runs(spec, runs, env={"PROP": prop}, timeout=3600)
    ctx.cov["traces_validated_against_impl"] += len(runs)
    ctx.cov["events_validated"] += st["events"]
    ctx.cov["states"] += st["distinct"]
    ctx.cov["transitions"] += st["generated"]
    ctx.cov["trace_validation_states"] = ctx.cov.get("trace_validation_states", 0) + st["distinct"]
    ctx.cov.setdefault("trace_validation", []).append({"label": label, "spec": spec, "schedules": total_runs, "histories": len(runs), "events": st["events"], "lin_search_states": st["distinct"], "wall_s": round(st["wall"], 1)})
    if runs:
        ctx.sample({"label": label, "history": [slim(json.loads(x)) for x in runs[len(runs) // 2][:14]]})
    for (i, evi, lines) in rejected:
        hdr = json.loads(lines[0])
        end = json.loads(lines[-1])
        ev = json.loads(lines[evi]) if evi < len(lines) else {}
        scn = next((x for x in scenarios if x["name"] == hdr.get("note")), None)
        rp = copy.deepcopy(scn) if scn else None
        if rp and end.get("ev") == "end" and end.get("fn"):
            rp["strategy"] = {"kind": "replay", "choices": [int(x) for x in end["fn"].split(",") if x]}
        ctx.violation({"kind": "conc", "spec": spec, "aspects_of": prop, "scenario": rp, "rejected_event_index": evi, "event": ev,
                       "history": [slim(json.loads(x)) for x in lines]},
                      "%s: history of %s not accepted by %s at event %d: %s" % (label, hdr.get("note"), spec, evi, json.dumps(slim(ev))))
    return runs, stats


def random_scenarios(ctx, kinds, cache=False):
    rng = random.Random(lib.seed() * 6151 + (1 if cache else 0))
    n, runs = (14, 250) if not ctx.thorough else (300, 1500)
    scs = []
    for (kind, kt, vt) in kinds:
        f = scen.random_cache_scenarios if cache else scen.random_map_scenarios
        scs += f(kind, kt, vt, rng, n, runs, lib.seed() * 1000)
    return scs


def pair_scenarios(ctx, kinds, cache=False):
    """Every ordered pair of writer calls on one key (small scope, systematic); quick tier: a seeded sample."""
    strat = {"kind": "dfs", "bound": 2, "max": 400 if not ctx.thorough else 6000, "rotate": True, "reduce": True}
    scs = []
    for (kind, kt, vt) in kinds:
        scs += (scen.pair_cache_scenarios if cache else scen.pair_map_scenarios)(kind, kt, vt, strat)
    if not ctx.thorough:
        rng = random.Random(lib.seed() * 97 + 5)
        rng.shuffle(scs)
        scs = scs[:48]
    return scs


def long_run(s):
    return s["name"].split("-")[0] in scen.LONG_RUN


def map_scenarios(ctx, kinds, pick=None):
    scs = []
    for (kind, kt, vt) in kinds:
        for strat in scen.strategies(ctx.tier, lib.seed()):
            for s in scen.map_families(kind, kt, vt, strat):
                if pick is None or any(s["name"].startswith(p) for p in pick):
                    scs.append(s)
        for s in scen.map_families(kind, kt, vt, scen.single_preemption(ctx.tier)):
            if long_run(s) and (pick is None or any(s["name"].startswith(p) for p in pick)):
                scs.append(s)
    return scs


def check_c03(ctx):
    run_conc(ctx, map_scenarios(ctx, [("Map", "", "")]), "Trace_MapLin", "C03", "Map families")
    run_conc(ctx, random_scenarios(ctx, [("Map", "", "")]), "Trace_MapLin", "C03", "Map random programs")
    run_conc(ctx, pair_scenarios(ctx, [("Map", "", "")]), "Trace_MapLin", "C03", "Map call pairs")


def check_c04(ctx):
    kinds = [("MapOf", "string", "any"), ("MapOf", "int", "int"), ("MapOf", "struct", "string")]
    run_conc(ctx, map_scenarios(ctx, kinds), "Trace_MapLin", "C04", "MapOf families")
    run_conc(ctx, random_scenarios(ctx, kinds[:2]), "Trace_MapLin", "C04", "MapOf random programs")
    run_conc(ctx, pair_scenarios(ctx, kinds[:2]), "Trace_MapLin", "C04", "MapOf call pairs")


CHECKS["C03"] = check_c03
CHECKS["C04"] = check_c04


def cache_scenarios(ctx, kinds, pick=None):
    scs = []
    for (kind, kt, vt) in kinds:
        for strat in scen.strategies(ctx.tier, lib.seed()):
            for s in scen.cache_families(kind, kt, vt, strat):
                if pick is None or any(s["name"].startswith(p) for p in pick):
                    scs.append(s)
        for s in scen.cache_families(kind, kt, vt, scen.single_preemption(ctx.tier)):
            if long_run(s) and (pick is None or any(s["name"].startswith(p) for p in pick)):
                scs.append(s)
    return scs


def check_c02(ctx):
    kinds = [("Cache", "", ""), ("CacheOf", "string", "any")] + ([("CacheOf", "int", "int")] if ctx.thorough else [])
    run_conc(ctx, cache_scenarios(ctx, kinds), "Trace_CacheLin", "C02", "cache families")
    run_conc(ctx, random_scenarios(ctx, kinds[:2], cache=True), "Trace_CacheLin", "C02", "cache random programs")
    run_conc(ctx, pair_scenarios(ctx, kinds[:2], cache=True), "Trace_CacheLin", "C02", "cache call pairs")


CHECKS["C02"] = check_c02


ALL_MAPS = [("Map", "", ""), ("MapOf", "string", "any"), ("MapOf", "int", "int"), ("MapOf", "struct", "string")]
ALL_CACHES = [("Cache", "", ""), ("CacheOf", "string", "any")]


def check_c05(ctx):
    ks = (2, 3) if not ctx.thorough else (2, 3, 4, 5)   # the linearization search grows with k! per history; 8 racers took > 40 min
    scs = map_scenarios(ctx, ALL_MAPS[:2] if not ctx.thorough else ALL_MAPS, pick=("F10", "F11", "F9"))
    for (kind, kt, vt) in ALL_MAPS[:2]:
        for strat in scen.strategies(ctx.tier, lib.seed()):
            for k in ks:
                scs += scen.racer_families(kind, kt, vt, strat, k)
    run_conc(ctx, scs, "Trace_MapLin", "C05", "map racers")
    scs = cache_scenarios(ctx, ALL_CACHES, pick=("G4", "G3b", "G1b", "G2c"))
    for (kind, kt, vt) in ALL_CACHES:
        for strat in scen.strategies(ctx.tier, lib.seed()):
            for k in ks:
                scs += scen.racer_families(kind, kt, vt, strat, k)
    run_conc(ctx, scs, "Trace_CacheLin", "C05", "cache racers")
    check_seq_cache_light(ctx, "C05")


def check_seq_cache_light(ctx, prop):
    """The sequential half of a property: exhaustive cache model + random traces on two containers."""
    exhaustive_cache_model(ctx)
    n, length = (40, 120) if not ctx.thorough else (600, 300)
    base = cache_programs(ctx, n, length, units=(1, 1, 1_000_000_000))
    for (kind, kt, vt) in CONTAINERS_CACHE[:2]:
        run_seq(ctx, [instantiate(p, kind, kt, vt) for p in base], "Trace_CacheSeq", prop, "%s[%s,%s] random (sequential)" % (kind, kt, vt))


def check_c06(ctx):
    # the janitor is a remover too: scripted lives with the callback swapped between passes (Trace_CacheLife checks the id of every report)
    life_check(ctx, lifecycle=False)
    run_conc(ctx, cache_scenarios(ctx, ALL_CACHES, pick=("G1", "G2", "G5", "G6", "G7", "G8", "G9b-visitor-del")), "Trace_CacheLin", "C06", "cache removers", c13=True)  # "the callback runs outside internal locks": a re-entrant callback that hangs is a C06 violation too
    check_seq_cache_light(ctx, "C06")
    run_seq(ctx, reentrant_pass_programs(), "Trace_CacheSeq", "C06", "passes of 1..200 evictions with a re-entrant callback")


def check_c07(ctx):
    run_conc(ctx, map_scenarios(ctx, ALL_MAPS if ctx.thorough else ALL_MAPS[:3], pick=("F12", "F13", "F14", "F15", "F6", "F4")), "Trace_MapLin", "C07", "map traversals")
    run_conc(ctx, cache_scenarios(ctx, ALL_CACHES, pick=("G9", "G8", "G1-")), "Trace_CacheLin", "C07", "cache traversals")
    check_seq_cache_light(ctx, "C07")
    rng = random.Random(lib.seed() * 13 + 7)
    progs = [gen.map_program(rng, "Map", "", "", length=60, nkeys=rng.choice([3, 8, 30]), note="seq-range#%d" % i,
                             weights=gen.MAP_WEIGHTS + [("Range", 8)]) for i in range(20 if not ctx.thorough else 300)]
    for (kind, kt, vt) in CONTAINERS_MAP[:2]:
        run_seq(ctx, [instantiate(p, kind, kt, vt) for p in progs], "Trace_MapSeq", "C07", "%s sequential Range" % kind)


def check_c08(ctx):
    run_conc(ctx, map_scenarios(ctx, ALL_MAPS if ctx.thorough else ALL_MAPS[:2]), "Trace_MapLin", "C08", "map families (quiescent Size)")
    run_conc(ctx, cache_scenarios(ctx, ALL_CACHES), "Trace_CacheLin", "C08", "cache families (quiescent Count)")
    check_seq_cache_light(ctx, "C08")


def reentrant_pass_programs():
    """Sequential programs whose evicted callback calls back into the cache (reads the evicted key, counts), with passes
    that evict 1..200 entries at once, single removals and Clear; every call runs under the harness watchdog."""
    S = scen.S
    progs = []
    for kind, kt, vt in ALL_CACHES:
        for n in (1, 5, 63, 64, 65, 130, 200):
            ops = [S("Set", "k%d" % i, "v%d" % i, d=5) for i in range(1, n + 1)] + [S("Set", "k900", "v900", d=50), S("SetForever", "k901", "v901")]
            ops += [S("Tick", d=6), S("Count"), S("DeleteExpired"), S("Count"), S("Items")]
            ops += [S("Set", "k%d" % i, "w%d" % i, d=5) for i in range(1, min(n, 70) + 1)] + [S("Tick", d=6)]
            ops += [S("Delete", "k1"), S("GetAndDelete", "k2"), S("Delete", "k900"), S("DeleteExpired"), S("Count"), S("Clear"), S("Count")]
            cfg = {"kind": kind, "keytype": kt, "valtype": vt, "ctor": "New", "hasdef": True, "def": 0, "hasintv": True, "interval": 0, "cb": "cbGet"}
            progs.append({"cache": cfg, "unit": 1, "ops": ops, "watch": True, "note": "re-entrant callback, pass of %d" % n})
    return progs


def check_c13(ctx):
    scs = map_scenarios(ctx, ALL_MAPS if ctx.thorough else ALL_MAPS[:2])
    for (kind, kt, vt) in (ALL_MAPS if ctx.thorough else ALL_MAPS[:2]):
        for strat in scen.strategies(ctx.tier, lib.seed()):
            scs += scen.termination_families(kind, kt, vt, strat)
        scs += [s for s in scen.termination_families(kind, kt, vt, scen.single_preemption(ctx.tier)) if long_run(s)]
    run_conc(ctx, scs, "Trace_MapLin", "C13", "map families (termination)", c13=True)
    run_conc(ctx, cache_scenarios(ctx, ALL_CACHES), "Trace_CacheLin", "C13", "cache families (termination, re-entrant callbacks)", c13=True)
    run_seq(ctx, reentrant_pass_programs(), "Trace_CacheSeq", "C13", "passes of 1..200 evictions with a re-entrant callback")
    ctx.assumptions += ["verdict = scheduler-observed deadlock (some thread unfinished, none enabled) or fair step budget exhausted; fair-yield rule: a thread that called Gosched is deprioritised until another thread performs a store-type operation"]


def check_c16(ctx):
    # specification level: freeze every thread but the reader at every reachable state of CLHT (CLHT_Freeze)
    sel = [("MapOf", "S1-slot-reuse")] if not ctx.thorough else [(v, n) for v in ("Map", "MapOf") for n in ("S1-slot-reuse", "S4-grow", "S7-clear-vs-grow", "S6-clear")]
    for (variant, name) in sel:
        r = clht.run_freeze(name, variant, timeout=7200)
        if r["violated"]:
            raise Inconclusive("TLC reports %s in CLHT_Freeze %s/%s with the code's switches (specification, not a verdict about the code)\n%s" % (r["violated"], name, variant, r["out"][-2000:]))
        ctx.add_model("CLHT_Freeze/%s/%s (reader bounded by 40 own steps, never blocked)" % (variant, name), r)
    scs = []
    for (kind, kt, vt) in (ALL_MAPS if ctx.thorough else ALL_MAPS[:2]):
        scs += scen.solo_families(kind, kt, vt)
    run_conc(ctx, scs, "Trace_MapLin", "C16", "map solo readers", c13=True)
    scs = []
    for (kind, kt, vt) in ALL_CACHES:
        scs += scen.solo_families(kind, kt, vt)
    run_conc(ctx, scs, "Trace_CacheLin", "C16", "cache solo readers", c13=True)
    ctx.assumptions += ["a writer is parked before each of its synchronisation operations (every sync/atomic call, Mutex/Cond operation, Gosched, user function); the reader must finish within 200 own steps"]


CHECKS.update({"C05": check_c05, "C06": check_c06, "C07": check_c07, "C08": check_c08, "C13": check_c13, "C16": check_c16})


# ------------------------------------------------------------------ C10 key-type catalogue, C12 twins

KEY_CATALOGUE = ["string", "int", "int8", "int16", "int32", "int64", "uint8", "uint16", "uint32", "uint64", "uintptr", "float64", "float32",
                 "complex128", "bool", "pointer", "array", "strarray", "padstruct", "nested", "any", "keyer"]


def run_seq_crashsafe(ctx, progs, spec, prop, label):
    """C10: 'no valid key makes an operation panic'. A panic inside an operation is recorded by the harness as an observation; a fatal
    runtime error kills the harness process - that is behaviour of the code under test too (the same harness passes on the unchanged
    tree), so the crashing program is isolated and reported."""
    try:
        return run_seq(ctx, progs, spec, prop, label)
    except Inconclusive as e:
        msg = str(e)
        if "fatal error" not in msg and "panic:" not in msg and "SIGSEGV" not in msg:
            raise
    sc = ctx.scratch()
    d = lib.mktemp("verif-crash-")
    survivors = []
    reported = 0
    for i, p in enumerate(progs):
        pin, out = os.path.join(d, "p%d.json" % i), os.path.join(d, "t%d.ndjson" % i)
        json.dump([p], open(pin, "w"))
        r = sc.run("seq", inp=pin, out=out, check=False)
        if r.returncode == 0:
            survivors.append(p)
            continue
        if reported < 5:
            crash = [l for l in r.stdout.splitlines() if "fatal error" in l or l.startswith("panic:")][:1]
            ctx.violation({"kind": "seq", "spec": spec, "aspects_of": prop, "program": p, "crash": r.stdout[-3000:], "event": {"op": "crash"}},
                          "%s: program %s crashed the process: %s" % (label, p.get("note"), crash[0] if crash else r.stdout[-200:]))
            reported += 1
    return run_seq(ctx, survivors, spec, prop, label + " (programs that did not crash)")


def check_c10(ctx):
    rng = random.Random(lib.seed() * 257 + 3)
    nper = 4 if not ctx.thorough else 40
    weights = gen.MAP_WEIGHTS + [("Scribble", 4)]
    for hasher in ("default", "collide-all", "collide-bucket"):
        progs = []
        for kt in KEY_CATALOGUE:
            for i in range(nper):
                nk = 2 if kt == "bool" else rng.choice([4, 9, 14, 30])
                keys = ["k%d" % j for j in range(0 if kt != "bool" else 1, nk + (0 if kt != "bool" else 1))]  # k0 = zero value / nil / "" / +-0
                p = gen.map_program(rng, "MapOf", "cat:" + kt, "string", length=70, keys=keys, weights=weights, note="%s/%s#%d" % (kt, hasher, i))
                if hasher == "collide-all":
                    p["pin"] = {"keys": {}, "all": [5, 1], "avoid": []}
                elif hasher == "collide-bucket":
                    p["pin"] = {"keys": {k: [5, (j % 100) + 1] for j, k in enumerate(keys)}, "avoid": []}
                progs.append(p)
        run_seq_crashsafe(ctx, progs, "Trace_MapSeq", "C10", "MapOf key-type catalogue, %s hasher" % hasher)
    # CacheOf over the same catalogue (default hasher)
    crng = random.Random(lib.seed() * 263 + 1)
    cprogs = []
    for kt in KEY_CATALOGUE:
        for i in range(2 if not ctx.thorough else 12):
            nk = 2 if kt == "bool" else 6
            p = gen.cache_program(crng, "CacheOf", "cat:" + kt, "string", unit=1, length=60, nkeys=nk, note="cache %s#%d" % (kt, i))
            cprogs.append(p)
    run_seq_crashsafe(ctx, cprogs, "Trace_CacheSeq", "C10", "CacheOf key-type catalogue")
    ctx.cov["key_type_catalogue"] = KEY_CATALOGUE
    ctx.assumptions += ["the quantifier over key types is carried by the finite catalogue listed in evidence; each abstract key is presented in two == representations alternately (fresh string memory, +0/-0, dirty struct padding, separately boxed interface values), pointees are mutated by Scribble steps",
                        "TLA+ has no Go types: MapSem judges on abstract key names, i.e. results must depend on the == class only; NaN keys are excluded by the property"]


def slow_fn_programs():
    S = scen.S
    """GetOrCompute / Compute with a user function during which the clock advances, on an absent, an expired and a live
    key, read back right at the two candidate expiration instants."""
    progs = []
    for unit in (1, 1_000_000_000):
        for op, fn in (("GetOrCompute", ""), ("Compute", "set"), ("Compute", "setifabsent"), ("Compute", "toggle")):
            for pre in ([], [S("Set", "k1", "v1", d=2), S("Tick", d=3)], [S("Set", "k1", "v1", d=50)]):
                for ft, d, wait in ((3, 10, 8), (3, 10, 11), (5, 5, 5), (1, 1, 1), (2, gen.DEFEXP_NS // unit, 4)):
                    call = {"op": op, "k": "k1", "v": "v2", "d": d, "fn": fn, "ft": ft}
                    ops = pre + [call, S("GetWithExpiration", "k1"), S("GetWithTTL", "k1"), S("Tick", d=wait), S("Get", "k1"),
                                 S("Tick", d=1), S("Get", "k1"), S("Tick", d=ft), S("GetWithTTL", "k1"), S("Items"), S("DeleteExpired"), S("Count")]
                    for cb in ("", "cb1"):
                        cfg = {"kind": "Cache", "keytype": "", "valtype": "", "ctor": "New", "hasdef": True, "def": 4, "hasintv": True, "interval": 0, "cb": cb}
                        progs.append({"cache": cfg, "unit": unit, "ops": ops, "note": "slow-fn %s/%s ft=%d d=%d" % (op, fn, ft, d)})
    return progs


def check_c12(ctx):
    exhaustive_cache_model(ctx)
    # caches: every sequential program on Cache and CacheOf[string,any] must give identical observations
    n, length = (60, 120) if not ctx.thorough else (1200, 300)
    base = cache_programs(ctx, n, length, units=(1, 1, 1_000_000_000))
    base += small_scope_programs(2, "Cache", "", "")
    # slow user functions: the clock advances while GetOrCompute's / Compute's function runs (both twins must arm the
    # expiry at the same point of the call, and read the default in force at the same point)
    base += cache_programs(ctx, n // 3, length, units=(1, 1_000_000_000), slowfn=0.5)
    base += slow_fn_programs()
    a = run_seq(ctx, [instantiate(p, "Cache", "", "") for p in base], "Trace_CacheSeq", "C12", "Cache")
    b = run_seq(ctx, [instantiate(p, "CacheOf", "string", "any") for p in base], "Trace_CacheSeq", "C12", "CacheOf[string,any]")
    compare_runs(ctx, a, b, "cache-twins", "Cache vs CacheOf[string,any]")
    rng = random.Random(lib.seed() * 7 + 12)
    progs = map_programs_c11(ctx, rng)
    a = run_seq(ctx, [instantiate(p, "Map", "", "") for p in progs], "Trace_MapSeq", "C12", "Map")
    b = run_seq(ctx, [instantiate(p, "MapOf", "string", "any") for p in progs], "Trace_MapSeq", "C12", "MapOf[string,any]")
    compare_runs(ctx, a, b, "map-twins", "Map vs MapOf[string,any]")
    # concurrent twins: the same scenarios under the same replayable strategies; both are decided by the same machine
    strat = [{"kind": "pct", "depth": 3, "runs": 300 if not ctx.thorough else 5000, "seed": lib.seed()}]
    scs = []
    for (kind, kt, vt) in [("Cache", "", ""), ("CacheOf", "string", "any")]:
        for s in strat:
            scs += scen.cache_families(kind, kt, vt, s)
    run_conc(ctx, scs, "Trace_CacheLin", "C12", "cache twins (concurrent)")
    ctx.assumptions += ["twin equality is event by event (results, callback ledger as sets per call, Items/Range as sets, Count/Size, physical content); iteration order and the subset an early-stopping Range visits are layout dependent and excluded"]


CHECKS.update({"C10": check_c10, "C12": check_c12})


# ------------------------------------------------------------------ C15 janitor / lifecycle

def life_programs(ctx):
    US, MS, SEC = 1000, 1_000_000, 1_000_000_000
    progs = []
    variants = [("New", True, -1 * MS), ("New", True, 0), ("New", True, 1 * MS), ("New", False, 0), ("New", True, 3 * MS),
                ("NewDefault", True, -5 * MS), ("NewDefault", True, 0), ("NewDefault", True, 1 * MS), ("NewDefault", True, 250 * US)]
    for kind in ("Cache", "CacheOf"):
        for (ctor, hasintv, intv) in variants:
            for cb in (True, False):
                period = intv if (hasintv and intv > 0) else (10 * SEC if not hasintv else 1 * MS)
                steps = [{"op": "set", "k": "k1", "d": 5 * US}, {"op": "set", "k": "k2", "d": 2 * period}, {"op": "set", "k": "k3", "d": 0},
                         {"op": "observe"}, {"op": "advance", "d": 6 * US}, {"op": "observe"},
                         {"op": "advance", "d": period - 6 * US - 1 * US}, {"op": "advance", "d": 1 * US}, {"op": "observe"},
                         {"op": "advance", "d": period}, {"op": "advance", "d": period}, {"op": "observe"},
                         {"op": "get", "k": "k3"}, {"op": "set", "k": "k4", "d": 10 * US}, {"op": "set", "k": "k5", "d": 10 * US},
                         {"op": "advance", "d": period // 2}, {"op": "get", "k": "k4"}, {"op": "advance", "d": period // 4}, {"op": "observe"},
                         {"op": "deleteexpired"}, {"op": "set", "k": "k6", "d": 1 * US}, {"op": "advance", "d": 3 * period + 7 * US}, {"op": "observe"},
                         {"op": "advance", "d": period}, {"op": "observe"},
                         # the callback is swapped: a janitor pass (and a manual one) must report to the callback in force
                         {"op": "setcb", "k": "cb2"}, {"op": "set", "k": "k7", "d": 1 * US}, {"op": "set", "k": "k8", "d": 1 * US}, {"op": "advance", "d": 2 * period}, {"op": "observe"},
                         {"op": "get", "k": "k7"}, {"op": "deleteexpired"}, {"op": "setcb", "k": ""}, {"op": "set", "k": "k9", "d": 1 * US},
                         {"op": "advance", "d": 2 * period}, {"op": "deleteexpired"}, {"op": "observe"}]
                progs.append({"kind": kind, "ctor": ctor, "hasintv": hasintv, "intv": intv, "cb": cb, "steps": steps,
                              "note": "%s %s interval=%s cb=%s" % (kind, ctor, intv if hasintv else "default", cb)})
    return progs


def life_check(ctx, lifecycle=True):
    res = lib.tlc_exhaustive("CacheLifeMC", "CacheLifeMC.cfg", timeout=3600)
    ctx.add_model("CacheLifeMC (janitor machine: OnlyWhenConfigured, BoundedStaleness, TickAhead; action properties NoLiveRemoved, PassIsComplete, TickerForward)", res)
    ctx.cov["exhaustive"] = True
    ctx.cov["exhaustive_scope"] = "TLC exhaustive: CacheLife over 2 keys, intervals {-3,0,2,3,default 4}, TTLs {0,1,2,5}, advances {1,2,3}, clock <= 9"
    sc = ctx.scratch()
    d = lib.mktemp("verif-life-")
    life = [{"kind": k, "n": n, "entries": e, "intv": 1_000_000, "cb": cb}
            for k in ("Cache", "CacheOf") for (n, e) in ((1, 3), (50, 2), (20, 0)) for cb in (False, True)]
    life += [{"kind": k, "n": 10, "entries": 3, "intv": 1_000_000, "cb": True, "busy": True} for k in ("Cache", "CacheOf")]
    if not lifecycle:
        life = []
    if ctx.thorough and lifecycle:
        life += [{"kind": k, "n": 400, "entries": 3, "intv": iv, "cb": True} for k in ("Cache", "CacheOf") for iv in (1_000_000, 10_000_000_000)]
    job = {"programs": life_programs(ctx), "lifecycle": life}
    pin, out = os.path.join(d, "life.json"), os.path.join(d, "life.ndjson")
    json.dump(job, open(pin, "w"))
    sc.run("life", inp=pin, out=out, timeout=1800)
    runs = lib.split_traces(out)
    # an uninformative GC window is never a verdict
    for lines in runs:
        for x in lines:
            e = json.loads(x)
            if e.get("op") == "collected" and not e.get("ok"):
                raise Inconclusive("baseline finaliser did not run within the GC window; lifecycle observation says nothing")
            if e.get("note") == "starved":
                raise Inconclusive("the machine was too loaded to schedule goroutines within the bounded waits (heartbeat starved); janitor observation says nothing")
    rejected, st = lib.validate_runs("Trace_CacheLife", runs, env={"PROP": "C15"}, timeout=1800)
    ctx.cov["traces_validated_against_impl"] += len(runs)
    ctx.cov["events_validated"] += st["events"]
    ctx.cov["states"] += st["distinct"]
    ctx.cov["transitions"] += st["generated"]
    ctx.cov["janitor_programs"] = len(job["programs"])
    ctx.cov["lifecycle_batches"] = len(life)
    ctx.sample({"label": "janitor program", "events": [slim(json.loads(x)) for x in runs[2][:8]]})
    if lifecycle:
        ctx.sample({"label": "lifecycle", "events": [slim(json.loads(x)) for x in runs[-1]]})
    for (i, evi, lines) in rejected:
        ev = json.loads(lines[evi]) if evi < len(lines) else {}
        hdr = json.loads(lines[0])
        ctx.violation({"kind": "life", "header": hdr, "rejected_event_index": evi, "event": ev, "trace": [slim(json.loads(x)) for x in lines]},
                      "janitor/lifecycle run '%s' rejected by Trace_CacheLife at event %d: %s" % (hdr.get("note"), evi, json.dumps(slim(ev))))
    ctx.assumptions += ["virtual ticker: the janitor's time.NewTicker is fed by clock advances; after each advance the harness waits (bounded, real time) until fired ticks are consumed and Count is stable",
                        "GC / finaliser timing is not controllable: bounded waits (20 s), INCONCLUSIVE if an unrelated baseline finaliser does not run in the same window",
                        "life traces are in microseconds (the 10 s default interval does not fit 32-bit TLC integers in ns)"]




def check_c15(ctx):
    life_check(ctx, lifecycle=True)


CHECKS["C15"] = check_c15


# ------------------------------------------------------------------ C14 data races (external observer: the Go race detector)

def native_lin_scenarios(ctx):
    """Small natively parallel programs (no pins, no ticks) derived from the scheduler families."""
    out = {"map": [], "cache": []}
    strat = {"kind": "none"}
    for (kind, kt, vt) in [("Map", "", ""), ("MapOf", "int", "int"), ("MapOf", "string", "any")]:
        for s in scen.map_families(kind, kt, vt, strat):
            ops = [o for t in s["threads"] for o in t] + s["preload"]
            if any(o["op"] in ("Range", "BulkStore", "BulkDelete", "BulkLoad") for o in ops):
                continue
            out["map"].append({"name": "native-" + s["name"], "map": s["map"], "preload": s["preload"], "threads": s["threads"], "final": s["final"]})
    allowed = {"Set", "SetForever", "Get", "GetOrSet", "GetAndSet", "GetOrCompute", "Compute", "GetAndDelete", "Delete", "DeleteExpired", "Clear", "Count"}
    for (kind, kt, vt) in [("Cache", "", ""), ("CacheOf", "string", "any")]:
        for s in scen.cache_families(kind, kt, vt, strat):
            ops = [o for t in s["threads"] for o in t] + s["preload"]
            if any(o["op"] not in allowed for o in ops):
                continue
            sc2 = copy.deepcopy(s)
            sc2["cache"]["cb"] = ""
            for o in [o for t in sc2["threads"] for o in t] + sc2["preload"]:
                if "d" in o:
                    o["d"] = 3_600_000_000_000 if o["d"] > 0 else o["d"]   # one hour: real time never reaches it
            out["cache"].append({"name": "native-" + s["name"], "cache": sc2["cache"], "preload": sc2["preload"], "threads": sc2["threads"], "final": s["final"]})
    return out


def check_c14(ctx):
    import concurrent.futures, glob
    sc = lib.Scratch(race=True, noshim=True)
    d = lib.mktemp("verif-race-")
    nproc = 8 if not ctx.thorough else 16
    programs, ops = (6, 2500) if not ctx.thorough else (40, 6000)
    crashes = []

    def stress(i):
        log = os.path.join(d, "race%d" % i)
        stp = os.path.join(d, "st%d.json" % i)
        p = sc.run("stress", stats=stp, extra=["-seed", str(lib.seed() * 100 + i), "-programs", str(programs), "-ops", str(ops)],
                   env={"GORACE": "halt_on_error=0 exitcode=0 log_path=%s history_size=3" % log, "GOMAXPROCS": str([2, 4, 8, 16][i % 4])}, check=False, timeout=3600)
        if p.returncode != 0:
            # a crash with repository frames is behaviour of the code under test (typically the consequence of a race);
            # anything else is an infrastructure failure
            o = p.stdout
            if ("panic:" in o or "fatal error:" in o or "SIGSEGV" in o) and ("/internal/xsync/" in o or "/xsync_map" in o):
                crashes.append(o[:1500] + "\n...\n" + o[-2500:])
                return {"ops": 0, "corrupt": 0, "programs": 0}
            raise Inconclusive("race stress process failed:\n" + o[-2000:])
        return json.load(open(stp))

    tot = {"ops": 0, "corrupt": 0, "programs": 0}
    with concurrent.futures.ThreadPoolExecutor(max_workers=4) as ex:
        for st in ex.map(stress, range(nproc)):
            for k in tot:
                tot[k] += st[k]
    reports = []
    for f in glob.glob(os.path.join(d, "race*.*")):
        txt = open(f).read()
        for r in txt.split("==================")[1:]:
            if "DATA RACE" in r:
                reports.append(r.strip())
    repo_reports = [r for r in reports if "/internal/xsync/" in r or any(("/" + f) in r for f in ("xsync_map.go", "xsync_mapof.go", "item.go", "itemof.go", "cache.go", "cacheof.go", "map.go", "mapof.go"))]
    ctx.cov["race_stress"] = dict(tot, processes=nproc, race_reports=len(reports), race_reports_in_repository_code=len(repo_reports))
    seen = set()
    for r in repo_reports:
        key = "\n".join(l.strip() for l in r.splitlines() if ".go:" in l)[:600]
        sig = tuple(sorted(set("/".join(tok.split("/")[-2:]) for l in r.splitlines() if ".go:" in l and ("xsync" in l or "/xsync_map" in l or "/cache" in l)
                               for tok in l.split() if ".go:" in tok and "zzverif" not in tok)))[:4]
        if sig in seen:
            continue
        seen.add(sig)
        ctx.violation({"kind": "race", "report": r[:6000]}, "race detector report in repository code: " + " | ".join(sig))
    for c in crashes[:3]:
        first = next((l for l in c.splitlines() if l.startswith(("panic:", "fatal error:"))), "crash")
        ctx.violation({"kind": "race-crash", "output": c}, "a natively parallel stress program crashed inside repository code: " + first[:200])
    if tot["programs"] == 0 and not crashes:
        raise Inconclusive("no stress program completed")
    tot["programs"] = max(tot["programs"], 1)
    if reports and not repo_reports:
        raise Inconclusive("race reports outside repository code (harness bug?):\n" + reports[0][:2000])
    if tot["corrupt"]:
        ctx.violation({"kind": "payload", "corrupt": tot["corrupt"]}, "a value read back from the cache/map had a broken checksum (unsafe publication)")
    # natively parallel, stamped histories validated for linearizability (real parallelism)
    nl = native_lin_scenarios(ctx)
    reps = 150 if not ctx.thorough else 3000
    for which, spec in (("map", "Trace_MapLin"), ("cache", "Trace_CacheLin")):
        pin, out, stp = os.path.join(d, which + ".json"), os.path.join(d, which + ".ndjson"), os.path.join(d, which + ".stats")
        json.dump({"scenarios": nl[which], "reps": reps}, open(pin, "w"))
        sc.run("lin", inp=pin, out=out, stats=stp, env={"GORACE": "halt_on_error=0 exitcode=0 log_path=%s" % os.path.join(d, "racelin")}, timeout=3600)
        runs = lib.split_traces(out)
        rejected, st = lib.validate_runs(spec, runs, env={"PROP": "ALL"}, timeout=3600)
        ctx.cov["traces_validated_against_impl"] += len(runs)
        ctx.cov["events_validated"] += st["events"]
        ctx.cov["states"] += st["distinct"]
        ctx.cov["transitions"] += st["generated"]
        ctx.cov.setdefault("trace_validation", []).append({"label": "native parallel " + which, "spec": spec, "runs": json.load(open(stp))["runs"], "histories": len(runs), "events": st["events"]})
        if runs:
            ctx.sample({"label": "native " + which, "history": [slim(json.loads(x)) for x in runs[0][:12]]})
        for (i, evi, lines) in rejected:
            ev = json.loads(lines[evi]) if evi < len(lines) else {}
            ctx.violation({"kind": "native-lin", "spec": spec, "event": ev, "history": [slim(json.loads(x)) for x in lines]},
                          "natively parallel history of %s not accepted by %s at event %d: %s" % (json.loads(lines[0]).get("note"), spec, evi, json.dumps(slim(ev))))
    for f in glob.glob(os.path.join(d, "racelin*")):
        if "DATA RACE" in open(f).read() and ("xsync" in open(f).read()):
            ctx.violation({"kind": "race", "report": open(f).read()[:6000]}, "race detector report during native linearizability runs")
    # access modes of the shared words, extracted from the working tree, against the table the CLHT specification assumes
    isc = ctx.scratch()
    modes = json.load(open(os.path.join(isc.dir, "modes.json")))
    table = {}
    for a in modes:
        if not a["file"].startswith("internal/xsync/"):
            continue
        key = "%s:%s:%s:%s" % (os.path.basename(a["file"]), a["func"], a["field"], "w" if a["write"] else "r")
        table.setdefault(key, set()).add(a["mode"])
    table = {k: "+".join(sorted(v)) for k, v in table.items()}
    exp_path = os.path.join(lib.SPECS, "access_modes.json")
    if os.path.exists(exp_path):
        exp = json.load(open(exp_path))
        diff = sorted(k for k in set(exp) | set(table) if exp.get(k) != table.get(k))
        ctx.cov["access_modes"] = {"sites": len(table), "differences_from_spec_table": diff[:20]}
        for k in diff[:10]:
            ctx.drift.append("access mode of %s is %s in the working tree, %s in the table the CLHT specification assumes (specs/access_modes.json)" % (k, table.get(k), exp.get(k)))
    else:
        json.dump(table, open(exp_path, "w"), indent=1, sort_keys=True)
    ctx.level = "exploration"
    ctx.cov["evaluations"] = tot["programs"] + ctx.cov["traces_validated_against_impl"]
    ctx.cov["distinct_nontrivial"] = tot["programs"] + ctx.cov["traces_validated_against_impl"]
    ctx.cov["rule"] = ("evaluations = natively parallel -race stress programs (each a seeded mix of all API calls by 2..64 goroutines on the four containers, "
                       "janitor on, settings swapped concurrently; %d operations in total) + distinct natively parallel stamped histories of small programs, each validated by TLC "
                       "against MapLin/CacheLin; every stress program differs by seed/goroutine count/key space, histories are de-duplicated, so every counted case is distinct and "
                       "non-trivial (>= 2 goroutines touching shared keys)" % tot["ops"])
    ctx.assumptions += ["the Go race detector is the observer of the compiled, uninstrumented code (this is the one property TLC cannot decide about a binary); it only reports races on executions that happen",
                        "payload integrity: values are pointers to freshly initialised structs whose checksum is verified on every read",
                        "a report whose frames are all outside repository code is INCONCLUSIVE (harness), never a violation"]


CHECKS["C14"] = check_c14


# ------------------------------------------------------------------ implementation-shaped CLHT specification (exhaustive, per family)

import clht  # noqa: E402

CLHT_QUICK = {
    "C03": [("Map", "S1-slot-reuse"), ("Map", "S9-delete-insert"), ("Map", "S7-clear-vs-grow")],
    "C04": [("MapOf", "S1-slot-reuse"), ("MapOf", "S4-grow"), ("MapOf", "S9-delete-insert")],
    "C05": [("MapOf", "S10-racers"), ("Map", "S12-compute-chain")],
    "C07": [("MapOf", "S14-range-writers"), ("Map", "S15-range-grow"), ("Map", "S16-range-clear")],
    "C08": [("MapOf", "S7-clear-vs-grow"), ("MapOf", "S5-shrink")],
    "C11": [("MapOf", "S13-compute-delete-absent"), ("Map", "S13-compute-delete-absent"), ("Map", "S3-append")],
    "C13": [("MapOf", "S7-clear-vs-grow"), ("Map", "S5-shrink")],
}


def clht_models(ctx, prop):
    """Exhaustive TLC runs of CLHT.tla (code-shaped) for the scenario families relevant to `prop`:
    annotation-free linearizability at terminal states, no duplicate keys, locks released, user-function counts,
    TLC deadlock check."""
    if ctx.thorough:
        variants = {"C03": ["Map"], "C04": ["MapOf"]}.get(prop, ["Map", "MapOf"])
        relevant = {"C05": ("S9-", "S10", "S11", "S12", "S4-"), "C07": ("S14", "S15", "S16"), "C08": ("S4-", "S4b", "S5-", "S6-", "S7-", "S8-"),
                    "C11": ("S3-", "S13", "S4c", "S17", "S1-"), "C13": ("S4-", "S5-", "S7-", "S8-", "S6b")}.get(prop)
        sel = [(v, n) for v in variants for n in clht.families() if relevant is None or n.startswith(relevant)]
    else:
        sel = CLHT_QUICK.get(prop, [])
    for (variant, name) in sel:
        r = clht.run_family(name, variant, timeout=7200)
        if r["violated"]:
            raise Inconclusive("TLC reports %s in CLHT family %s/%s with the code's design switches: the specification misrepresents the code or the design is broken; "
                               "not a verdict about the code (real-code histories decide)\n%s" % (r["violated"], name, variant, r["out"][-2500:]))
        ctx.add_model("CLHT/%s/%s" % (variant, name), r)
    if sel:
        ctx.cov["exhaustive"] = True
        ctx.cov["exhaustive_scope"] = (ctx.cov.get("exhaustive_scope", "") + " | TLC exhaustive: CLHT.tla scenario families (3 threads, <= 2 calls each, <= 4 keys, 2 slots per bucket, 1-2 root buckets "
                                       "growing to 4, scaled thresholds): every interleaving of the labelled steps; the real-code exploration is seeded, not exhaustive").strip(" |")
    if prop == "C13" and ctx.thorough:
        # liveness under weak fairness: every call eventually returns (no livelock in the retry loops, no lost wake-up)
        for (variant, name) in (("MapOf", "S7-clear-vs-grow"), ("Map", "S5-shrink"), ("Map", "S4-grow")):
            r = clht.run_family(name, variant, timeout=7200, liveness=True)
            if r["violated"]:
                raise Inconclusive("TLC reports %s for EventuallyDone in CLHT family %s/%s (specification, not a verdict about the code)\n%s" % (r["violated"], name, variant, r["out"][-2000:]))
            ctx.add_model("CLHT/%s/%s + liveness(EventuallyDone, WF)" % (variant, name), r)
    mpath = os.path.join(lib.SPECS, "switch_matrix.json")
    if os.path.exists(mpath):
        m = json.load(open(mpath))
        ctx.cov["design_switches"] = {"refuted": sorted(k for k, v in m.items() if v["refuted_by"]), "not_discriminated": sorted(k for k, v in m.items() if not v["refuted_by"])}


_orig_c03, _orig_c04, _orig_c05, _orig_c07, _orig_c08, _orig_c11, _orig_c13 = check_c03, check_c04, check_c05, check_c07, check_c08, check_c11, check_c13


def _with_clht(pid, fn):
    def run(ctx):
        clht_models(ctx, pid)
        fn(ctx)
    return run


for _pid, _fn in (("C03", _orig_c03), ("C04", _orig_c04), ("C05", _orig_c05), ("C07", _orig_c07), ("C08", _orig_c08), ("C11", _orig_c11), ("C13", _orig_c13)):
    CHECKS[_pid] = _with_clht(_pid, _fn)


# ------------------------------------------------------------------ implementation-shaped concurrent cache model (CacheImpl)

import cacheimpl  # noqa: E402

CIMPL_QUICK = {"C02": ["I2-two-deleteexpired", "I3-lazydelete-vs-set", "I1b-deleteexpired-vs-getorset"], "C06": ["I2-two-deleteexpired", "I6-callback-swap"],
               "C05": ["I4-racers-expired"]}


def cacheimpl_models(ctx, prop):
    """TLC enumerates every interleaving of the cache methods over an atomic map (CacheImpl.tla); every terminal history
    must be accepted by the property-level machine CacheLin - the oracle that also judges the real code."""
    names = CIMPL_QUICK.get(prop, [])
    if ctx.thorough:
        names = [n for n in cacheimpl.families() if prop == "C02" or n.startswith({"C06": ("I2", "I5", "I6", "I8"), "C05": ("I4", "I1b", "I2c")}.get(prop, ("I",)))]
    for name in names:
        r = cacheimpl.run_family(name, timeout=7200)
        runs = cacheimpl.to_runs(name, r["family"], r["histories"])
        rej, st = lib.validate_runs("Trace_CacheLin", runs, env={"PROP": prop}, timeout=7200, max_reject=1)
        if rej:
            i, evi, lines = rej[0]
            raise Inconclusive("a terminal history of CacheImpl family %s (code's switches) is rejected by CacheLin at event %d: %s\n"
                               "the specification misrepresents the code or the design is broken; not a verdict about the code" % (name, evi, lines[evi][:400]))
        ctx.add_model("CacheImpl/" + name, r)
        ctx.cov["tlc_models"][-1]["terminal_histories_accepted_by_CacheLin"] = len(runs)
        ctx.cov["transitions"] += st["generated"]
        ctx.cov["exhaustive"] = True
        ctx.cov["exhaustive_scope"] = (ctx.cov.get("exhaustive_scope", "") + " | TLC exhaustive: CacheImpl.tla families (3 threads, <= 2 cache calls each over an atomic map, 2 keys, frozen clock)").strip(" |")


_o2, _o6, _o5b = CHECKS["C02"], CHECKS["C06"], CHECKS["C05"]


def _with_cimpl(pid, fn):
    def run(ctx):
        cacheimpl_models(ctx, pid)
        fn(ctx)
    return run


CHECKS["C02"] = _with_cimpl("C02", _o2)
CHECKS["C06"] = _with_cimpl("C06", _o6)
CHECKS["C05"] = _with_cimpl("C05", _o5b)


# ------------------------------------------------------------------ atomic-level conformance of real runs against CLHT (Trace_CLHT)

import clhtconf  # noqa: E402

CONF_FAMILIES = ("F1-", "F1b", "F2-", "F3-", "F4-", "F4b", "F5-", "F6-", "F6b", "F7-", "F8-", "F9-", "F10", "F11", "F12", "F13", "F14")


def clht_conformance(ctx, kinds):
    """Code -> spec at the granularity of synchronisation steps: the scheduler's step log of real runs is mapped to CLHT
    labels and the specification (real geometry, projected initial table) is driven along the recorded schedule; it must
    take every step, compute the same results and end in the same table. A mismatch is SPEC-DRIFT, never a verdict."""
    import concurrent.futures
    sc = ctx.scratch()
    if not (sc.features["project"] and sc.features["pins"]):
        ctx.cov["impl_conformance"] = "skipped_no_access"
        return
    per = 1 if not ctx.thorough else 8
    sitemap = json.load(open(os.path.join(sc.dir, "sitemap.json")))
    jobs = []
    d = lib.mktemp("verif-conf-")
    for (variant, kind, kt, vt) in kinds:
        fam = scen.map_families(kind, kt, vt, {"kind": "pct", "depth": 3, "runs": 12 if not ctx.thorough else 200, "seed": lib.seed()})
        scs = [dict(s, steplog=True) for s in fam if s["name"].startswith(CONF_FAMILIES)]
        pin, out = os.path.join(d, "sc_%s_%s.json" % (kind, kt)), os.path.join(d, "h_%s_%s.ndjson" % (kind, kt))
        json.dump(scs, open(pin, "w"))
        sc.run("conc", inp=pin, out=out, timeout=3600)
        byname = {s["name"]: s for s in scs}
        seen = {}
        for lines in lib.split_traces(out):
            name = json.loads(lines[0])["note"]
            if seen.get(name, 0) >= per:
                continue
            seen[name] = seen.get(name, 0) + 1
            jobs.append((variant, name, byname[name], lines))
    results = []
    with concurrent.futures.ThreadPoolExecutor(max_workers=8) as ex:
        for r in ex.map(lambda j: (j[0], j[1], clhtconf.conform(j[3], j[2], j[0], sitemap)), jobs):
            results.append(r)
    ok = [r for r in results if r[2][0] is True]
    bad = [r for r in results if r[2][0] is False]
    ctx.cov["clht_conformance"] = {"runs_checked": len(ok) + len(bad), "conforming": len(ok), "steps_matched": sum(r[2][1]["events"] for r in ok), "not_checkable": len(results) - len(ok) - len(bad)}
    ctx.cov["states"] += sum(r[2][1].get("states") or 0 for r in ok)
    ctx.cov["impl_conformance"] = "ok" if not bad else "drift(%d of %d runs)" % (len(bad), len(ok) + len(bad))
    for (variant, name, (_, detail)) in bad[:3]:
        ctx.drift.append("CLHT(%s) cannot follow the recorded synchronisation steps of %s: %s" % (variant, name, json.dumps(detail)[:400]))
    if ok:
        ctx.sample({"label": "CLHT conformance", "run": ok[0][1], "detail": ok[0][2][1]})


_c3, _c4 = CHECKS["C03"], CHECKS["C04"]


def _with_conf(fn, kinds):
    def run(ctx):
        fn(ctx)
        clht_conformance(ctx, kinds)
    return run


CHECKS["C03"] = _with_conf(_c3, [("Map", "Map", "", "")])
CHECKS["C04"] = _with_conf(_c4, [("MapOf", "MapOf", "int", "int"), ("MapOf", "MapOf", "string", "any")])

"""Concurrent scenario families for the cooperative scheduler (DESIGN 5, C02-C08, C13, C16)."""
import copy

FOCUS = 5          # focus root bucket (low 5 bits)
FOCUS2 = 37        # same bucket as FOCUS in a 32-bucket table, a different one after a grow to 64
OTHER = 9


def geom(kind):
    """(slots per bucket, grow threshold of the minimal table)"""
    return (3, 72) if kind in ("Map", "Cache") else (5, 120)


def shrink_keep(kind, live):
    """Ballast entries to keep so that a 64-bucket table holding `live` scenario entries sits exactly one entry above its
    shrink threshold (64*slots/128: 1 for Map, 2 for MapOf): the next delete that empties a bucket shrinks it - and the
    preload's own bulk delete does not."""
    slots, _ = geom(kind)
    return max(0, (64 * slots) // 128 + 1 - live)


def S(op, k="", v="", fn="", d=0, lo=0, hi=0):
    o = {"op": op}
    if k:
        o["k"] = k
    if v:
        o["v"] = v
    if fn:
        o["fn"] = fn
    if d:
        o["d"] = d
    if lo or hi:
        o["lo"], o["hi"] = lo, hi
    return o


class Vals:
    def __init__(self, start=0):
        self.n = start

    def __call__(self):
        self.n += 1
        return "v%d" % self.n


def container(kind, kt, vt):
    if kind in ("Map", "MapOf"):
        return {"map": {"kind": kind, "keytype": kt, "valtype": vt}}
    return {"cache": {"kind": kind, "keytype": kt, "valtype": vt, "ctor": "New", "hasintv": True, "interval": 0}}


def base(name, kind, kt, vt, pin, preload, threads, final, strategy):
    sc = {"name": name, "preload": preload, "threads": threads, "final": final, "strategy": strategy, "pin": pin, "unit": 1}
    sc.update(copy.deepcopy(container(kind, kt, vt)))
    return sc


def pin_of(keys):
    """keys: name -> (bucket, h). Ballast avoids the focus buckets."""
    return {"keys": {k: [b, h] for k, (b, h) in keys.items()}, "avoid": [FOCUS, OTHER]}


def map_families(kind, kt, vt, strat):
    """The linearizability families of C03/C04 (+C05 racers, C07 Range, C08 sizes) for one container."""
    slots, thr = geom(kind)
    st, ld, de = ("Store", "Load", "Delete")
    fam = []
    v = Vals(10)

    def add(name, keys, preload, threads, final=None):
        fam.append(base("%s/%s[%s]" % (name, kind, kt), kind, kt, vt, pin_of(keys), preload, threads, final or sorted(keys), strat))

    # F1 same-slot reuse: delete k1 || insert k2 colliding in bucket and bucket-local hash || readers
    add("F1-slot-reuse", {"k1": (FOCUS, 1), "k2": (FOCUS, 1)}, [S(st, "k1", v())],
        [[S(de, "k1")], [S(st, "k2", v())], [S(ld, "k1"), S(ld, "k2")]])
    add("F1b-slot-reuse-differenth", {"k1": (FOCUS, 1), "k2": (FOCUS, 2), "k3": (FOCUS, 1)}, [S(st, "k1", v()), S(st, "k3", v())],
        [[S("LoadAndDelete", "k1"), S(st, "k1", v())], [S(st, "k2", v())], [S(ld, "k2"), S(ld, "k1"), S(ld, "k3")]])
    # F2 update || load || LoadAndStore
    add("F2-update", {"k1": (FOCUS, 1)}, [S(st, "k1", v())],
        [[S(st, "k1", v())], [S("LoadAndStore", "k1", v())], [S(ld, "k1"), S(ld, "k1")]])
    # F3 full chain -> append a bucket || readers || delete of a chain member
    full = {"k%d" % i: (FOCUS, i) for i in range(1, slots + 1)}
    keys = dict(full, k50=(FOCUS, 50), k51=(FOCUS, 51))
    add("F3-append", keys, [S(st, k, v()) for k in sorted(full)],
        [[S(st, "k50", v())], [S(ld, "k50"), S(ld, "k1")], [S(de, "k2"), S(st, "k51", v())]])
    # F4 insert that triggers a grow || writer on the same chain / another bucket || readers
    pre = [S("BulkStore", lo=1, hi=thr + 1)] + [S(st, k, v()) for k in sorted(full)]
    keys = dict(full, k50=(FOCUS2, 50), k60=(OTHER, 3))
    add("F4-grow", keys, pre + [S(st, "k60", v())],
        [[S(st, "k50", v())], [S(st, "k1", v()), S("LoadAndStore", "k60", v())], [S(ld, "k1"), S(ld, "k50"), S(ld, "k60")]])
    add("F4b-grow-delete", keys, pre + [S(st, "k60", v())],
        [[S("LoadOrStore", "k50", v())], [S(de, "k1"), S(de, "k60")], [S(ld, "k50"), S(ld, "k1")]])
    # F4c an insert into an EMPTY bucket is in flight while another insert grows the table (the copier must still lock that bucket)
    EMPTYB = 11
    pre = [S("BulkStore", lo=1, hi=thr + 1)] + [S(st, k, v()) for k in sorted(full)]
    fam_keys = dict(full, k50=(FOCUS2, 50), k70=(EMPTYB, 7), k71=(EMPTYB + 32, 8))
    fam.append(base("F4c-grow-vs-insert-into-empty-bucket/%s[%s]" % (kind, kt), kind, kt, vt,
                    {"keys": {k: [b, h] for k, (b, h) in fam_keys.items()}, "avoid": [FOCUS, OTHER, EMPTYB]}, pre,
                    [[S(st, "k50", v())], [S(st, "k70", v()), S(ld, "k70")], [S("LoadOrCompute", "k71", v()), S(ld, "k71")]], ["k1", "k50", "k70", "k71"], strat))
    # F5 delete that empties a bucket -> shrink || insert
    keys = {"k1": (FOCUS, 1), "k2": (OTHER, 2), "k3": (FOCUS2, 3)}
    pre = [S("BulkStore", lo=1, hi=thr + thr // 2), S(st, "k1", v()), S(st, "k2", v()), S("BulkDelete", lo=1 + shrink_keep(kind, 2), hi=thr + thr // 2)]
    add("F5-shrink", keys, pre,
        [[S(de, "k1")], [S(st, "k3", v()), S(st, "k2", v())], [S(ld, "k2"), S(ld, "k3"), S(ld, "k1")]])
    # F5b a shrink request computed on the 64-bucket table arrives after a Clear has installed the minimal one
    add("F5b-shrink-vs-clear", keys, pre,
        [[S(de, "k1"), S(st, "k1", v())], [S("Clear"), S(st, "k3", v())], [S(ld, "k2"), S("Size")]])
    # F6 Clear || Store || Load
    keys = {"k1": (FOCUS, 1), "k2": (FOCUS, 2), "k3": (OTHER, 3)}
    add("F6-clear", keys, [S(st, "k1", v()), S(st, "k3", v())],
        [[S("Clear")], [S(st, "k2", v()), S(ld, "k1")], [S(ld, "k1"), S(ld, "k2"), S(ld, "k3")]])
    # F6b Clear on an (almost) empty table || the first inserts
    add("F6b-clear-empty", {"k1": (FOCUS, 1), "k2": (OTHER, 2)}, [],
        [[S(st, "k1", v()), S(st, "k2", v())], [S(ld, "k1"), S("Clear"), S(ld, "k1")], [S("Clear"), S(ld, "k2"), S("Size")]])
    # F7 Clear || grow in progress
    pre = [S("BulkStore", lo=1, hi=thr + 1)] + [S(st, k, v()) for k in sorted(full)]
    keys = dict(full, k50=(FOCUS2, 50))
    add("F7-clear-vs-grow", keys, pre,
        [[S(st, "k50", v())], [S("Clear"), S(ld, "k1"), S("Size")], [S(ld, "k1")]], final=["k1", "k2", "k50"])
    # F8 two resizers: grow || shrink attempt / second grow
    add("F8-two-growers", dict(full, k50=(FOCUS2, 50), k52=(FOCUS, 52)), pre,
        [[S(st, "k50", v())], [S(st, "k52", v())], [S(ld, "k50"), S(ld, "k52")]])
    # F9 delete || insert of the same key
    add("F9-delete-insert", {"k1": (FOCUS, 1)}, [S(st, "k1", v())],
        [[S("LoadAndDelete", "k1")], [S("LoadOrStore", "k1", v())], [S(ld, "k1"), S("LoadAndDelete", "k1")]])
    # F10 get-or-create racers and compute chains (C05)
    add("F10-racers", {"k1": (FOCUS, 1), "k2": (FOCUS, 2)}, [S(st, "k2", v())],
        [[S("LoadOrCompute", "k1", v())], [S("LoadOrCompute", "k1", v())], [S("LoadOrStore", "k1", v()), S(de, "k2")]])
    add("F10b-compute-chain", {"k1": (FOCUS, 1)}, [S(st, "k1", v())],
        [[S("Compute", "k1", v(), fn="toggle")], [S("Compute", "k1", v(), fn="toggle")], [S("Compute", "k1", v(), fn="setifabsent"), S(ld, "k1")]])
    # F11 racers across a grow: the user function must run once although the call retries
    pre = [S("BulkStore", lo=1, hi=thr + 1)] + [S(st, k, v()) for k in sorted(full)]
    add("F11-racers-grow", dict(full, k50=(FOCUS2, 50)), pre,
        [[S("LoadOrCompute", "k50", v())], [S("Compute", "k50", v(), fn="setifabsent")], [S("LoadOrCompute", "k50", v())]])
    # F11b a Compute / LoadOrCompute whose user function is running (bucket locked) while another insert grows the table
    add("F11b-compute-vs-grow", dict(full, k50=(FOCUS2, 50), k60=(OTHER, 3)), pre + [S(st, "k60", v())],
        [[S("Compute", "k1", v(), fn="set"), S(ld, "k1")], [S(st, "k50", v())], [S("LoadOrCompute", "k61", v()), S("Compute", "k60", v(), fn="toggle")]], final=["k1", "k50", "k60", "k61"])
    # F12 Range || writers (C07)
    keys = {"k1": (FOCUS, 1), "k2": (FOCUS, 2), "k3": (OTHER, 3), "k4": (OTHER, 4)}
    add("F12-range-writers", keys, [S(st, "k1", v()), S(st, "k3", v())],
        [[S("Range", fn="all")], [S(de, "k1"), S(st, "k1", v())], [S(st, "k2", v()), S(st, "k4", v()), S(de, "k3")]])
    pre = [S("BulkStore", lo=1, hi=thr + 1)] + [S(st, k, v()) for k in sorted(full)]
    add("F13-range-grow", dict(full, k50=(FOCUS2, 50)), pre,
        [[S("Range", fn="all")], [S(st, "k50", v())], [S(de, "k1")]])
    full2 = {"k%d" % i: (FOCUS, i) for i in range(1, 2 * slots + 1)}
    # the overflowed chain is built first, then ballast up to exactly thr+1 entries: no insert of the preload can grow the table
    # (each of them sees a count <= thr), the scenario's insert into the full chain does
    pre2 = [S(st, k, v()) for k in sorted(full2, key=lambda x: int(x[1:]))] + [S("BulkStore", lo=1, hi=thr + 1 - 2 * slots)]
    add("F13b-range-grow-overflow-chain", dict(full2, k50=(FOCUS2, 50)), pre2,
        [[S("Range", fn="all")], [S(st, "k50", v())], [S(ld, "k%d" % (2 * slots))]], final=["k1", "k%d" % (2 * slots), "k50"])
    add("F12b-range-overflow-chain-writers", dict(full2, k50=(FOCUS, 50)), [S(st, k, v()) for k in sorted(full2, key=lambda x: int(x[1:]))],
        [[S("Range", fn="all")], [S(de, "k%d" % (slots + 1)), S(st, "k50", v())], [S(st, "k%d" % (2 * slots), v())]], final=["k1", "k50"])
    add("F14-range-clear", {"k1": (FOCUS, 1), "k2": (OTHER, 2)}, [S(st, "k1", v()), S(st, "k2", v())],
        [[S("Range", fn="all")], [S("Clear"), S(st, "k1", v())]])
    # F15 mutating visitors (single thread and with a concurrent writer)
    keys = {"k1": (FOCUS, 1), "k2": (FOCUS, 2), "k3": (OTHER, 3), "k4": (OTHER, 4)}
    for fn in ("del", "upd", "ins", "delother", "clear", "load", "stop:1", "stop:2"):
        add("F15-visitor-" + fn, keys, [S(st, "k1", v()), S(st, "k2", v()), S(st, "k3", v())],
            [[S("Range", k="k4", v=v(), fn=fn), S("Size")], [S(st, "k3", v())]])
    return fam


DFS2 = {"kind": "dfs", "bound": 2, "max": 2500}


def strategies(tier, seed):
    if tier == "quick":
        return [{"kind": "dfs", "bound": 2, "max": 1200, "rotate": True, "reduce": True}, {"kind": "dfs", "bound": 2, "max": 600, "rotate": True, "storeonly": True, "reduce": True},
                {"kind": "pct", "depth": 3, "runs": 400, "seed": seed}]
    return [{"kind": "dfs", "bound": 3, "max": 45000, "rotate": True, "reduce": True}, {"kind": "dfs", "bound": 2, "max": 30000, "rotate": True},
            {"kind": "pct", "depth": 3, "runs": 20000, "seed": seed}, {"kind": "random", "runs": 5000, "seed": seed + 1}]


def single_preemption(tier):
    """Complete enumeration of the schedules with ONE preemption (before every store-type operation of every thread, all
    rotations of the default thread order). The bounded DFS with two preemptions is truncated at `max` and only reaches the
    tail of a long run (a resize of a 64-bucket table is several hundred steps); this one covers every single stall point."""
    return {"kind": "dfs", "bound": 1, "max": 8000 if tier == "quick" else 60000, "rotate": True, "storeonly": True}


LONG_RUN = ("F5", "F5b", "T3", "T5", "G15", "G15b")   # families on a 64-bucket table at its shrink threshold


def cache_families(kind, kt, vt, strat):
    """C02 / C05 / C06 / C07 families for one cache container. Entries are made live, expired-uncleaned or absent by
    the preload (Set with a TTL, then Tick past it); the clock is frozen while the threads run."""
    fam = []
    v = Vals(10)

    def add(name, keys, preload, threads, final=None, cb="cb1"):
        sc = base("%s/%s[%s]" % (name, kind, kt), kind, kt, vt, pin_of(keys), preload, threads, final or sorted(keys), strat)
        sc["cache"]["cb"] = cb
        fam.append(sc)

    two = {"k1": (FOCUS, 1), "k2": (FOCUS, 2)}
    exp1 = [S("Set", "k1", v(), d=5), S("Set", "k2", v(), d=50), S("Tick", d=6)]   # k1 expired-uncleaned, k2 live
    # G1 DeleteExpired || Set of the expired key || readers  (a completed store must never be lost)
    add("G1-deleteexpired-vs-set", two, exp1,
        [[S("DeleteExpired")], [S("Set", "k1", v(), d=-2000000000), S("Get", "k1")], [S("Get", "k1"), S("Get", "k2")]])
    add("G1b-deleteexpired-vs-getorset", two, exp1,
        [[S("DeleteExpired")], [S("GetOrSet", "k1", v(), d=100)], [S("GetAndSet", "k1", v(), d=100), S("Get", "k1")]])
    # G2 two overlapping removers of the same expired entry (callback at most once)
    add("G2-two-deleteexpired", two, exp1,
        [[S("DeleteExpired")], [S("DeleteExpired")], [S("Get", "k2")]])
    add("G2b-deleteexpired-vs-delete", two, exp1,
        [[S("DeleteExpired")], [S("Delete", "k1")], [S("GetAndDelete", "k1"), S("Count")]])
    add("G2c-deleteexpired-vs-compute", two, exp1,
        [[S("DeleteExpired")], [S("Compute", "k1", v(), fn="set", d=100)], [S("GetAndRefresh", "k1", d=10), S("Get", "k1")]])
    # G3 lazy deletion on read || writer of the same key
    add("G3-lazydelete-vs-set", two, exp1,
        [[S("Get", "k1")], [S("Set", "k1", v(), d=100)], [S("GetWithTTL", "k1"), S("GetWithExpiration", "k1")]])
    add("G3b-lazydelete-vs-getorcompute", two, exp1,
        [[S("Get", "k1")], [S("GetOrCompute", "k1", v(), d=100)], [S("GetOrCompute", "k1", v(), d=100)]])
    # G4 read-modify-write racers on one key: live / expired-uncleaned / absent
    for nm, pre in (("live", [S("Set", "k1", v(), d=50)]), ("expired", [S("Set", "k1", v(), d=5), S("Tick", d=6)]), ("absent", [])):
        add("G4-racers-" + nm, two, pre,
            [[S("GetOrSet", "k1", v(), d=100)], [S("GetOrCompute", "k1", v(), d=100)], [S("GetOrSet", "k1", v(), d=100), S("Get", "k1")]])
        add("G4b-rmw-" + nm, two, pre,
            [[S("GetAndSet", "k1", v(), d=100)], [S("Compute", "k1", v(), fn="toggle", d=100)], [S("GetAndRefresh", "k1", d=100), S("Compute", "k1", v(), fn="setifabsent", d=7)]])
    # G5 removers racing each other and a writer (exactly-once eviction of the very entry)
    add("G5-removers", two, [S("Set", "k1", v(), d=50)],
        [[S("Delete", "k1")], [S("GetAndDelete", "k1")], [S("Set", "k1", v(), d=50), S("GetAndDelete", "k1")]])
    # G6 callback swapped while removers run
    add("G6-callback-swap", two, [S("Set", "k1", v(), d=50), S("Set", "k2", v(), d=5), S("Tick", d=6)],
        [[S("SetEvictedCallback", fn="cb2")], [S("Delete", "k1")], [S("DeleteExpired")]])
    # G7 re-entrant callbacks
    for cb in ("cbGet", "cbSet", "cbDel", "cbCount"):
        add("G7-reentrant-" + cb, two, exp1, [[S("DeleteExpired")], [S("Delete", "k2")]], cb=cb)
    # G8 Clear || writers || DeleteExpired
    add("G8-clear", two, exp1,
        [[S("Clear")], [S("Set", "k2", v(), d=50), S("Get", "k2")], [S("DeleteExpired"), S("Count")]])
    # G9 Range / Items || writers, expired entries never visited
    add("G9-range", dict(two, k3=(OTHER, 3)), exp1 + [S("Set", "k3", v(), d=50)],
        [[S("Range", fn="all")], [S("Set", "k1", v(), d=50), S("Delete", "k3")], [S("Items")]])
    # Items / Range must not trust the size counter: it lags behind the slots (insert counted late, delete counted early)
    add("G9c-items-vs-counter", dict(two, k3=(OTHER, 3)), [S("Set", "k2", v(), d=-2000000000)],
        [[S("Set", "k3", v(), d=50)], [S("Delete", "k3")], [S("Items"), S("Count")]], final=["k2", "k3"])
    for fn in ("del", "upd", "ins", "clear", "load", "stop:1"):
        add("G9b-visitor-" + fn, dict(two, k3=(OTHER, 3), k4=(OTHER, 4)), exp1 + [S("Set", "k3", v(), d=50)],
            [[S("Range", k="k4", v=v(), fn=fn), S("Count")], [S("Set", "k3", v(), d=50)]])
    # G11 / G12 table resizes under the cache: two growers, grow vs Clear, grow vs DeleteExpired (no completed Set may be lost)
    slots, thr = geom(kind)
    full = {"k%d" % i: (FOCUS, i) for i in range(1, slots + 1)}
    gpre = [S("BulkStore", lo=1, hi=thr + 1)] + [S("Set", k, v(), d=50) for k in sorted(full)]
    gkeys = dict(full, k50=(FOCUS2, 50), k52=(FOCUS, 52), k60=(OTHER, 3))
    add("G11-two-growers", gkeys, gpre,
        [[S("Set", "k50", v(), d=50)], [S("Set", "k52", v(), d=50), S("Get", "k52")], [S("Set", "k60", v(), d=50), S("Get", "k50")]], final=["k1", "k50", "k52", "k60"])
    add("G12-grow-vs-clear", gkeys, gpre,
        [[S("GetOrSet", "k50", v(), d=50)], [S("Clear"), S("Get", "k1")], [S("Get", "k1"), S("Count")]], final=["k1", "k50"])
    add("G13-grow-vs-deleteexpired", gkeys, gpre + [S("Set", "k60", v(), d=5), S("Tick", d=6)],
        [[S("Set", "k50", v(), d=50)], [S("DeleteExpired")], [S("Set", "k60", v(), d=50), S("Get", "k60")]], final=["k1", "k50", "k60"])
    add("G13b-grow-vs-removers", gkeys, gpre,
        [[S("Set", "k50", v(), d=50)], [S("Delete", "k1"), S("Get", "k1")], [S("GetAndDelete", "k2"), S("Get", "k1"), S("Delete", "k1")]], final=["k1", "k2", "k50"])
    # G15 a shrink of the table under the cache (deletes leave a bucket empty at <= cap/128 entries) || a slow get-or-create of another key
    skeys = {"k1": (FOCUS, 1), "k2": (OTHER, 2), "k3": (FOCUS2, 3), "k4": (11, 4)}
    spre = [S("BulkStore", lo=1, hi=thr + thr // 2), S("Set", "k1", v(), d=50), S("Set", "k2", v(), d=50), S("BulkDelete", lo=1 + shrink_keep(kind, 2), hi=thr + thr // 2)]
    add("G15-shrink-vs-getorcompute", skeys, spre,
        [[S("Delete", "k1")], [S("GetOrCompute", "k4", v(), d=50), S("Get", "k4")], [S("Set", "k3", v(), d=50), S("Get", "k2")]], final=["k1", "k2", "k3", "k4"])
    add("G15b-shrink-vs-clear", skeys, spre,
        [[S("Delete", "k1"), S("Set", "k1", v(), d=50)], [S("Clear"), S("Set", "k3", v(), d=50)], [S("Get", "k2"), S("Count")]], final=["k1", "k2", "k3"])
    # G10 default expiration changed while stores run
    add("G10-default-swap", two, [],
        [[S("SetDefaultExpiration", d=7)], [S("SetDefault", "k1", v()), S("GetWithExpiration", "k1")], [S("Set", "k2", v(), d=-1000000000), S("GetWithTTL", "k2"), S("DefaultExpiration")]])
    return fam


def racer_families(kind, kt, vt, strat, k):
    """C05: k racers on one key (absent / live), plus a bucket-mate writer."""
    fam = []
    v = Vals(100)
    keys = {"k1": (FOCUS, 1), "k2": (FOCUS, 2)}
    if kind in ("Map", "MapOf"):
        for nm, pre in (("absent", []), ("live", [S("Store", "k1", v())])):
            thr = [[S("LoadOrCompute" if i % 2 else "LoadOrStore", "k1", v())] for i in range(k)] + [[S("Store", "k2", v()), S("Delete", "k2")]]
            fam.append(base("R%d-racers-%s/%s[%s]" % (k, nm, kind, kt), kind, kt, vt, pin_of(keys), pre, thr, ["k1", "k2"], strat))
        thr = [[S("Compute", "k1", v(), fn="toggle")] for i in range(k)]
        fam.append(base("R%d-compute/%s[%s]" % (k, kind, kt), kind, kt, vt, pin_of(keys), [], thr, ["k1"], strat))
    else:
        for nm, pre in (("absent", []), ("live", [S("Set", "k1", v(), d=50)]), ("expired", [S("Set", "k1", v(), d=5), S("Tick", d=6)])):
            thr = [[S("GetOrCompute" if i % 2 else "GetOrSet", "k1", v(), d=100)] for i in range(k)] + [[S("Set", "k2", v(), d=5), S("Delete", "k2")]]
            fam.append(base("R%d-racers-%s/%s[%s]" % (k, nm, kind, kt), kind, kt, vt, pin_of(keys), pre, thr, ["k1", "k2"], strat))
        thr = [[S("Compute", "k1", v(), fn="toggle", d=100)] for i in range(k)]
        fam.append(base("R%d-compute/%s[%s]" % (k, kind, kt), kind, kt, vt, pin_of(keys), [S("Set", "k1", v(), d=5), S("Tick", d=6)], thr, ["k1"], strat))
    return fam


def termination_families(kind, kt, vt, strat):
    """C13: waiters around a resize, every early-return path followed by a revisit of the same bucket, re-entrant visitors."""
    slots, thr = geom(kind)
    fam = []
    v = Vals(200)
    full = {"k%d" % i: (FOCUS, i) for i in range(1, slots + 1)}
    pre = [S("BulkStore", lo=1, hi=thr + 1)] + [S("Store", k, v()) for k in sorted(full)]
    keys = dict(full, k50=(FOCUS2, 50), k51=(FOCUS, 51), k52=(FOCUS, 52))
    # three writers arrive while one of them resizes: everybody must be woken
    fam.append(base("T1-waiters/%s[%s]" % (kind, kt), kind, kt, vt, pin_of(keys), pre,
                    [[S("Store", "k50", v())], [S("Store", "k51", v()), S("Load", "k51")], [S("Delete", "k1"), S("Store", "k52", v())], [S("Clear")]], ["k50", "k51", "k52"], strat))
    # every early return of doCompute, then the same bucket is locked again by the same and by another thread
    keys = {"k1": (FOCUS, 1), "k2": (FOCUS, 2), "k3": (FOCUS, 3)}
    early = [S("LoadOrStore", "k1", v()), S("Delete", "k3"), S("LoadAndDelete", "k3"), S("Compute", "k3", v(), fn="del"), S("Compute", "k1", v(), fn="keep"),
             S("LoadOrCompute", "k1", v()), S("Compute", "k1", v(), fn="del"), S("Store", "k2", v())]
    fam.append(base("T2-early-returns/%s[%s]" % (kind, kt), kind, kt, vt, pin_of(keys), [S("Store", "k1", v())],
                    [early, [S("Store", "k2", v()), S("Load", "k2"), S("Delete", "k2")]], ["k1", "k2", "k3"], strat))
    # a delete of an absent key whose chain is completely full (the "new bucket" path), then the same bucket is locked again
    slots_, _ = geom(kind)
    fullc = {"k%d" % i: (FOCUS, i) for i in range(1, slots_ + 1)}
    keys4 = dict(fullc, k51=(FOCUS, 51), k52=(FOCUS, 52))
    fam.append(base("T4-full-chain-delete-absent/%s[%s]" % (kind, kt), kind, kt, vt, pin_of(keys4), [S("Store", k, v()) for k in sorted(fullc)],
                    [[S("Delete", "k51"), S("Compute", "k52", v(), fn="del"), S("LoadAndDelete", "k51"), S("Store", "k1", v())], [S("Load", "k1"), S("Store", "k2", v())]], ["k1", "k2", "k51"], strat))
    # shrink abandoned / completed with waiters
    keys = {"k1": (FOCUS, 1), "k2": (OTHER, 2), "k3": (FOCUS2, 3)}
    pre = [S("BulkStore", lo=1, hi=thr + thr // 2), S("Store", "k1", v()), S("Store", "k2", v()), S("BulkDelete", lo=1 + shrink_keep(kind, 2), hi=thr + thr // 2)]
    fam.append(base("T3-shrink-waiters/%s[%s]" % (kind, kt), kind, kt, vt, pin_of(keys), pre,
                    [[S("Delete", "k1")], [S("Delete", "k2")], [S("Store", "k3", v()), S("Range", fn="all")]], ["k1", "k2", "k3"], strat))
    # a stale shrink request after a Clear / after a competing shrink: everybody must still terminate
    fam.append(base("T5-shrink-vs-clear/%s[%s]" % (kind, kt), kind, kt, vt, pin_of(keys), pre,
                    [[S("Delete", "k1"), S("Store", "k1", v())], [S("Clear")], [S("Store", "k3", v())]], ["k1", "k2", "k3"], strat))
    return fam


def solo_families(kind, kt, vt):
    """C16: the writer is parked after every possible number of its own steps; the reader then runs alone."""
    slots, thr = geom(kind)
    fam = []
    v = Vals(300)
    is_map = kind in ("Map", "MapOf")
    full = {"k%d" % i: (FOCUS, i) for i in range(1, slots + 1)}
    keys = dict(full, k50=(FOCUS2, 50), k60=(OTHER, 3), k61=(OTHER, 4), k62=(FOCUS, 62))
    pin = pin_of(keys)
    st = "Store" if is_map else "Set"
    grow_pre = [S("BulkStore", lo=1, hi=thr + 1)] + [S(st, k, v(), d=0) for k in sorted(full)] + [S(st, "k60", v())]
    small_pre = [S(st, "k1", v()), S(st, "k2", v()), S(st, "k60", v())]
    nil_pre = small_pre + [S(st, "k62", "nil")]   # k62: present in the writer's bucket, holding the zero value / nil
    if is_map:
        writers = {
            "store-update": (small_pre, [S("Store", "k1", v())]),
            "store-insert": (small_pre, [S("Store", "k3", v())]),
            "compute-fn": (small_pre, [S("Compute", "k1", v(), fn="set")]),
            "loadorcompute-fn": (small_pre, [S("LoadOrCompute", "k3", v())]),
            "delete": (small_pre, [S("Delete", "k1")]),
            "grow": (grow_pre, [S("Store", "k50", v())]),
            "clear": (small_pre, [S("Clear")]),
            "range": (small_pre, [S("Range", fn="all")]),
        }
        readers = {
            "load-same": [S("Load", "k1")], "load-mate": [S("Load", "k2")], "load-unrelated": [S("Load", "k60")], "load-absent": [S("Load", "k61")],
            "loadorstore-hit": [S("LoadOrStore", "k2", v())], "loadorcompute-hit": [S("LoadOrCompute", "k60", v())], "size": [S("Size")],
        }
        nil_readers = {"load-nil": [S("Load", "k62")], "loadorstore-nil-hit": [S("LoadOrStore", "k62", v())], "loadorcompute-nil-hit": [S("LoadOrCompute", "k62", v())]}
    else:
        writers = {
            "set-update": (small_pre, [S("Set", "k1", v(), d=50)]),
            "getorcompute-fn": (small_pre, [S("GetOrCompute", "k3", v(), d=50)]),
            "compute-fn": (small_pre, [S("Compute", "k1", v(), fn="set", d=50)]),
            "delete": (small_pre, [S("Delete", "k1")]),
            "grow": (grow_pre, [S("Set", "k50", v())]),
            "clear": (small_pre, [S("Clear")]),
            "deleteexpired": ([S("Set", "k3", v(), d=5), S("Tick", d=6)] + small_pre, [S("DeleteExpired")]),
        }
        readers = {
            "get-same": [S("Get", "k1")], "get-mate": [S("GetWithTTL", "k2")], "get-unrelated": [S("GetWithExpiration", "k60")], "get-absent": [S("Get", "k61")],
            "count": [S("Count")],
        }
        nil_readers = {"get-nil": [S("Get", "k62")]}
    # a delete that leaves its bucket empty on a table at its shrink threshold: the writer is stopped at every step of the shrink
    shrink_pin = pin_of({"k1": (FOCUS, 1), "k2": (OTHER, 2), "k60": (OTHER, 3), "k61": (OTHER, 4), "k3": (FOCUS2, 3)})
    # (Map shrinks a 64-bucket table at <= 1 entry: only k1 and k2 are live there, and the readers of k60 are left out)
    shrink_live = ["k1", "k2"] + (["k60"] if slots > 3 else [])
    shrink_pre = [S("BulkStore", lo=1, hi=thr + thr // 2)] + [S(st, k, v()) for k in shrink_live] + [S("BulkDelete", lo=1 + shrink_keep(kind, len(shrink_live)), hi=thr + thr // 2)]
    writers["shrink"] = (shrink_pre, [S("Delete", "k1")])
    combos = [(wn, pre, w, readers) for wn, (pre, w) in writers.items()]
    # lookups of a present key whose value is the zero value / nil, behind a writer stalled in the same bucket
    for wn in ("compute-fn", "store-update", "set-update", "delete"):
        if wn in writers:
            combos.append((wn + "+nil", nil_pre, writers[wn][1], nil_readers))
    for (wn, pre, w, rs) in combos:
        for rn, r in rs.items():
            if wn == "shrink" and r[0].get("k") == "k60" and "k60" not in shrink_live:
                continue
            if wn == "clear" and rn in ("loadorstore-hit", "loadorcompute-hit"):
                continue  # after Clear published, the key is absent and the call is a get-or-CREATE (a writer): outside C16
            sc = base("S-%s-vs-%s/%s[%s]" % (wn, rn, kind, kt), kind, kt, vt, shrink_pin if wn == "shrink" else pin, pre, [w, r], ["k1", "k2", "k3"], {"kind": "solo", "writer": 1, "reader": 2, "parkat": -1, "ownmax": 200})
            fam.append(sc)
    return fam


def random_map_scenarios(kind, kt, vt, rng, n, runs, seed):
    """Seeded random small concurrent programs: 3-4 threads x 1-3 calls over 3-5 keys whose placement (same bucket / same
    bucket-local hash / different buckets) is drawn at random, on a table that is empty, near the grow threshold (full
    focus chain + ballast) or near the shrink threshold."""
    slots, thr = geom(kind)
    out = []
    ops = ["Load", "Load", "Store", "Store", "LoadOrStore", "LoadAndStore", "LoadOrCompute", "Compute", "LoadAndDelete", "Delete", "Range", "Clear", "Size"]
    for i in range(n):
        v = Vals(1000 + i * 50)
        nk = rng.choice([2, 3, 4, 5])
        names = ["k%d" % (j + 1) for j in range(nk)]
        keys = {k: (rng.choice([FOCUS, FOCUS, FOCUS2, OTHER]), rng.choice([1, 1, 2, 3])) for k in names}
        shape = rng.choice(["small", "small", "grow", "shrink", "chain"])
        pre = []
        if shape == "grow":
            fullk = {"k%d" % (90 + j): (FOCUS, 10 + j) for j in range(slots)}
            keys.update(fullk)
        elif shape == "chain":
            fullk = {"k%d" % (90 + j): (FOCUS, 10 + j) for j in range(2 * slots)}
            keys.update(fullk)
            pre = [S("Store", k, v()) for k in sorted(fullk)]
        stores = [S("Store", k, v()) for k in names if rng.random() < 0.5]
        if shape == "grow":
            # full focus chain and the scenario's own entries first, then ballast up to exactly thr+1 entries: nothing in the
            # preload can grow the table, any insert into a full chain during the run does
            pre = [S("Store", k, v()) for k in sorted(fullk)] + stores + [S("BulkStore", lo=1, hi=thr + 1 - slots - len(stores))]
        elif shape == "shrink":
            # grown to 64 buckets, emptied down to one entry above the shrink threshold (counting the scenario's own entries)
            pre = [S("BulkStore", lo=1, hi=thr + thr // 2)] + stores + [S("BulkDelete", lo=1 + shrink_keep(kind, len(stores)), hi=thr + thr // 2)]
        else:
            pre += stores
        threads = []
        for t in range(rng.choice([2, 3, 3, 4])):
            calls = []
            for _ in range(rng.choice([1, 2, 2, 3])):
                op = rng.choice(ops)
                k = rng.choice(names)
                if op in ("Load", "LoadAndDelete", "Delete"):
                    calls.append(S(op, k))
                elif op == "Compute":
                    calls.append(S(op, k, v(), fn=rng.choice(["set", "del", "toggle", "setifabsent", "keep", "delret"])))
                elif op == "Range":
                    calls.append(S(op, k=rng.choice(names), v=v(), fn=rng.choice(["all", "all", "stop:1", "del", "upd", "ins"])))
                elif op in ("Clear", "Size"):
                    calls.append(S(op))
                else:
                    calls.append(S(op, k, v()))
            threads.append(calls)
        sc = base("RND%d-%s/%s[%s]" % (i, shape, kind, kt), kind, kt, vt, pin_of(keys), pre, threads, sorted(names), {"kind": "pct", "depth": 3, "runs": runs, "seed": seed + i})
        out.append(sc)
    return out


def random_cache_scenarios(kind, kt, vt, rng, n, runs, seed):
    out = []
    ops = ["Get", "Get", "Set", "Set", "GetOrSet", "GetAndSet", "GetAndRefresh", "GetOrCompute", "Compute", "GetAndDelete", "Delete", "DeleteExpired", "DeleteExpired",
           "Range", "Items", "Clear", "Count", "GetWithTTL", "GetWithExpiration", "SetEvictedCallback"]
    for i in range(n):
        v = Vals(2000 + i * 50)
        nk = rng.choice([2, 3, 4])
        names = ["k%d" % (j + 1) for j in range(nk)]
        keys = {k: (rng.choice([FOCUS, FOCUS, OTHER]), rng.choice([1, 1, 2])) for k in names}
        pre = []
        for k in names:
            r = rng.random()
            if r < 0.35:
                pre.append(S("Set", k, v(), d=5))      # expired after the tick
            elif r < 0.7:
                pre.append(S("Set", k, v(), d=rng.choice([50, -2000000000])))
        pre.append(S("Tick", d=6))
        threads = []
        for t in range(rng.choice([2, 3, 3])):
            calls = []
            for _ in range(rng.choice([1, 2, 2, 3])):
                op = rng.choice(ops)
                k = rng.choice(names)
                d = rng.choice([50, 100, -2000000000, -1000000000, 0])
                if op in ("Get", "GetAndDelete", "Delete", "GetWithTTL", "GetWithExpiration"):
                    calls.append(S(op, k))
                elif op == "GetAndRefresh":
                    calls.append(S(op, k, d=d))
                elif op == "Compute":
                    calls.append(S(op, k, v(), fn=rng.choice(["set", "del", "toggle", "setifabsent", "keep", "delret"]), d=d))
                elif op == "Range":
                    calls.append(S(op, k=rng.choice(names), v=v(), fn=rng.choice(["all", "all", "stop:1", "upd", "load"])))
                elif op in ("Clear", "Count", "DeleteExpired", "Items"):
                    calls.append(S(op))
                elif op == "SetEvictedCallback":
                    calls.append(S(op, fn=rng.choice(["cb2", "nil", "cb1"])))
                else:
                    calls.append(S(op, k, v(), d=d))
            threads.append(calls)
        sc = base("RNDC%d/%s[%s]" % (i, kind, kt), kind, kt, vt, pin_of(keys), pre, threads, sorted(names), {"kind": "pct", "depth": 3, "runs": runs, "seed": seed + i})
        sc["cache"]["cb"] = rng.choice(["cb1", "cb1", ""])
        out.append(sc)
    return out


def pair_map_scenarios(kind, kt, vt, strat):
    """Small scope, systematically: every ordered pair of writer calls on one key / on slot mates, plus a reader."""
    out = []
    v = Vals(5000)
    ops = [("Store", ""), ("LoadOrStore", ""), ("LoadAndStore", ""), ("LoadOrCompute", ""), ("Compute", "toggle"), ("Compute", "setifabsent"),
           ("LoadAndDelete", ""), ("Delete", ""), ("Clear", "")]
    keys = {"k1": (FOCUS, 1), "k2": (FOCUS, 1)}

    def mk(op, fn, k):
        if op == "Clear":
            return S("Clear")
        if op in ("LoadAndDelete", "Delete"):
            return S(op, k)
        return S(op, k, v(), fn=fn)
    for (o1, f1) in ops:
        for (o2, f2) in ops:
            for rel in ("same", "mate"):
                for pre in ((), ("k1",)):
                    k2 = "k1" if rel == "same" else "k2"
                    sc = base("P-%s%s-%s%s-%s-%s/%s[%s]" % (o1, f1, o2, f2, rel, "present" if pre else "absent", kind, kt), kind, kt, vt, pin_of(keys),
                              [S("Store", k, v()) for k in pre], [[mk(o1, f1, "k1")], [mk(o2, f2, k2)], [S("Load", "k1"), S("Load", k2)]], ["k1", "k2"], strat)
                    out.append(sc)
    return out


def pair_cache_scenarios(kind, kt, vt, strat):
    out = []
    v = Vals(6000)
    ops = [("Set", ""), ("GetOrSet", ""), ("GetAndSet", ""), ("GetAndRefresh", ""), ("GetOrCompute", ""), ("Compute", "toggle"), ("Compute", "setifabsent"),
           ("GetAndDelete", ""), ("Delete", ""), ("DeleteExpired", ""), ("Clear", "")]
    keys = {"k1": (FOCUS, 1), "k2": (FOCUS, 2)}

    def mk(op, fn):
        if op in ("Clear", "DeleteExpired"):
            return S(op)
        if op in ("GetAndDelete", "Delete"):
            return S(op, "k1")
        if op == "GetAndRefresh":
            return S(op, "k1", d=100)
        return S(op, "k1", v(), fn=fn, d=100)
    states = {"live": [S("Set", "k1", v(), d=50), S("Set", "k2", v(), d=5), S("Tick", d=6)], "expired": [S("Set", "k1", v(), d=5), S("Set", "k2", v(), d=50), S("Tick", d=6)],
              "absent": [S("Set", "k2", v(), d=5), S("Tick", d=6)]}
    for (o1, f1) in ops:
        for (o2, f2) in ops:
            for stn, pre in states.items():
                sc = base("PC-%s%s-%s%s-%s/%s[%s]" % (o1, f1, o2, f2, stn, kind, kt), kind, kt, vt, pin_of(keys), list(pre),
                          [[mk(o1, f1)], [mk(o2, f2)], [S("Get", "k1"), S("Get", "k2")]], ["k1", "k2"], strat)
                sc["cache"]["cb"] = "cb1"
                out.append(sc)
    return out

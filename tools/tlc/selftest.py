"""./check selftest [matrix]: the binding is not vacuous.
 (a) a recorded run with one corrupted field (result / instant / eviction / count / visit) must be rejected by TLC at that line
 (b) `matrix`: every design switch alternative of CLHT must be refuted by TLC on at least one family (writes specs/switch_matrix.json)
"""
import json, os, random, sys

import clht
import gen
import lib


def corrupt_traces():
    sc = lib.Scratch()
    d = lib.mktemp("verif-selftest-")
    rng = random.Random(7)
    progs = [gen.cache_program(rng, "Cache", "", "", unit=1, length=80, nkeys=4, note="selftest#%d" % i) for i in range(12)]
    for p in progs:
        p["cache"]["cb"] = "cb1"
    pin, out = os.path.join(d, "p.json"), os.path.join(d, "t.ndjson")
    json.dump(progs, open(pin, "w"))
    sc.run("seq", inp=pin, out=out)
    runs = lib.split_traces(out)
    rej, _ = lib.validate_runs("Trace_CacheSeq", runs, env={"PROP": "ALL"})
    if rej:
        print("selftest: unmodified traces rejected", rej[0][1])
        return 1
    bad = 0
    tried = 0
    for kind in ("rv", "ok", "x", "evs", "c1", "vis"):
        for ri, lines in enumerate(runs):
            idx = None
            for i, l in enumerate(lines[1:], 1):
                e = json.loads(l)
                if kind == "rv" and e["op"] in ("Get", "GetOrSet") and e["ok"]:
                    e["rv"] = "v999"
                elif kind == "ok" and e["op"] == "GetAndRefresh":
                    e["ok"] = not e["ok"]
                elif kind == "x" and e["op"] == "GetWithExpiration" and e["ok"] and e["x"] > 0:
                    e["x"] += 1
                elif kind == "evs" and e["op"] == "DeleteExpired" and e["evs"]:
                    e["evs"] = e["evs"] + [e["evs"][0]]
                elif kind == "c1" and e["op"] == "Count":
                    e["c1"] += 1
                    e["x"] += 1
                elif kind == "vis" and e["op"] == "Items" and e["vis"]:
                    e["vis"] = e["vis"][1:]
                else:
                    continue
                idx = i
                mut = list(lines)
                mut[i] = json.dumps(e) + "\n"
                break
            if idx is None:
                continue
            tried += 1
            r, _ = lib.validate_runs("Trace_CacheSeq", [mut], shards=1, env={"PROP": "ALL"})
            if not r or r[0][1] != idx:
                print("selftest: corruption of %s at line %d of run %d NOT rejected there (%s)" % (kind, idx, ri, r[0][1] if r else "accepted"))
                bad += 1
            break
    print("selftest (a): %d corruptions tried, %d missed" % (tried, bad))
    return 1 if bad or tried < 5 else 0


def matrix():
    res = {}
    for alt, (sw, fams) in clht.ALTERNATIVES.items():
        refuted = []
        for name in fams:
            variants = ("Map",) if alt.startswith(("InsertOrder", "SnapshotRecheck")) else ("MapOf", "Map")
            for v in variants:
                r = clht.run_family(name, v, sw, timeout=3600)
                print(alt, name, v, r["violated"], r.get("distinct"), flush=True)
                if r["violated"] and r["violated"] != "error":
                    refuted.append({"family": name, "variant": v, "violated": r["violated"], "distinct_states": r.get("distinct")})
        res[alt] = {"switches": sw, "refuted_by": refuted}
        json.dump(res, open(os.path.join(lib.SPECS, "switch_matrix.json"), "w"), indent=1)
    r = clht.run_freeze("S7-clear-vs-grow", "Map", {"LoadOnMissWaits": "TRUE"}, timeout=3600)
    print("LoadOnMissWaits=TRUE (CLHT_Freeze)", r["violated"], flush=True)
    res["LoadOnMissWaits=TRUE"] = {"switches": {"LoadOnMissWaits": "TRUE"}, "refuted_by": [{"family": "S7-clear-vs-grow", "variant": "Map/CLHT_Freeze", "violated": r["violated"], "distinct_states": r.get("distinct")}] if r["violated"] and r["violated"] != "error" else []}
    import cacheimpl
    for alt, (sw, fams) in cacheimpl.ALTERNATIVES.items():
        refuted = []
        for name in fams:
            r = cacheimpl.run_family(name, sw, timeout=3600)
            runs = cacheimpl.to_runs(name, r["family"], r["histories"])
            rej, _ = lib.validate_runs("Trace_CacheLin", runs, env={"PROP": "ALL"}, timeout=3600, max_reject=1)
            print(alt, name, "rejected" if rej else "accepted", flush=True)
            if rej:
                refuted.append({"family": name, "variant": "CacheImpl", "violated": "history rejected by CacheLin", "distinct_states": r.get("distinct")})
        res["CacheImpl:" + alt] = {"switches": sw, "refuted_by": refuted}
        json.dump(res, open(os.path.join(lib.SPECS, "switch_matrix.json"), "w"), indent=1)
    missing = [a for a, v in res.items() if not v["refuted_by"]]
    print("switch matrix: %d alternatives, not discriminated: %s" % (len(res), missing))
    return 0


def conformance():
    """(c) Trace_CLHT must reject a recorded run with one synchronisation step removed and one with a corrupted result."""
    import clhtconf, scen
    sc = lib.Scratch()
    d = lib.mktemp("verif-selfconf-")
    fam = scen.map_families("Map", "", "", {"kind": "pct", "depth": 3, "runs": 5, "seed": 1})
    scs = [dict(s, steplog=True) for s in fam if s["name"].startswith(("F4-grow", "F1-slot"))]
    pin, out = os.path.join(d, "sc.json"), os.path.join(d, "h.ndjson")
    json.dump(scs, open(pin, "w"))
    sc.run("conc", inp=pin, out=out)
    sitemap = json.load(open(os.path.join(sc.dir, "sitemap.json")))
    byname = {s["name"]: s for s in scs}
    bad = 0
    for lines in lib.split_traces(out)[:2]:
        name = json.loads(lines[0])["note"]
        ok, _ = clhtconf.conform(lines, byname[name], "Map", sitemap)
        if ok is not True:
            print("selftest (c): unmodified run does not conform", name)
            bad += 1
            continue
        stores = [i for i, l in enumerate(lines) if '"ev":"step"' in l and '"op":"Store"' in l]
        mut = lines[:stores[len(stores) // 2]] + lines[stores[len(stores) // 2] + 1:]
        ok, det = clhtconf.conform(mut, byname[name], "Map", sitemap)
        if ok is not False:
            print("selftest (c): run with a removed Store step still conforms", name)
            bad += 1
        rets = [i for i, l in enumerate(lines) if '"ev":"ret"' in l and '"op":"Load"' in l and '"t":0' not in l]
        if rets:
            e = json.loads(lines[rets[0]])
            e["rv"], e["ok"] = "v999", True
            mut = list(lines)
            mut[rets[0]] = json.dumps(e) + "\n"
            ok, det = clhtconf.conform(mut, byname[name], "Map", sitemap)
            if ok is not False:
                print("selftest (c): run with a corrupted Load result still conforms", name)
                bad += 1
    print("selftest (c): conformance mutations missed:", bad)
    return 1 if bad else 0


def shapes():
    """Vacuity guard for the scenario geometry: every family whose name says grow/shrink must really start from the table
    size it assumes and really resize during the run (one default-schedule run with the step log on)."""
    import json, os, random
    import lib, scen
    sc = lib.Scratch()
    sm = json.load(open(os.path.join(sc.dir, "sitemap.json")))
    publish = {"%s:%d" % (x["file"], x["line"]) for x in sm["sites"] if x["func"] == "resize" and x["op"] == "StorePointer"}
    bad = 0
    strat = {"kind": "pct", "depth": 2, "runs": 12, "seed": 1}
    todo = []
    for (kind, kt, vt) in (("Map", "", ""), ("MapOf", "string", "any"), ("MapOf", "int", "int")):
        fams = scen.map_families(kind, kt, vt, strat) + scen.termination_families(kind, kt, vt, strat) + scen.solo_families(kind, kt, vt)
        fams += scen.random_map_scenarios(kind, kt, vt, random.Random(1), 40, 1, 1)
        todo.append((kind, fams))
    for (kind, kt, vt) in (("Cache", "", ""), ("CacheOf", "string", "any")):
        todo.append((kind, scen.cache_families(kind, kt, vt, strat) + scen.solo_families(kind, kt, vt)))
    for kind, fams in todo:
        sel = [f for f in fams if "shrink" in f["name"] or "grow" in f["name"]]
        for f in sel:
            f["steplog"] = True
            if f["strategy"].get("kind") == "solo":
                f["strategy"] = dict(strat)
        d = lib.mktemp("verif-shapes-")
        pin, out = os.path.join(d, "in.json"), os.path.join(d, "out.ndjson")
        json.dump(sel, open(pin, "w"))
        sc.run("conc", inp=pin, out=out, stats=os.path.join(d, "st.json"), timeout=1800)
        cur, lens, res = None, {}, {}
        for l in open(out):
            e = json.loads(l)
            if e.get("ev") == "reset":
                cur = e["note"]
                res.setdefault(cur, 0)
            elif e.get("ev") == "init" and cur not in lens:
                lens[cur] = json.loads(e["note"])["Len"]
            elif e.get("ev") == "step" and (e.get("fn") or e.get("note")) in publish:
                res[cur] = res.get(cur, 0) + 1   # a new table was published
        for f in sel:
            n = f["name"]
            want = 64 if "shrink" in n else 32
            rnd = n.startswith("RND")   # random programs need not contain the triggering call
            if lens.get(n) != want or (res.get(n, 0) == 0 and not rnd):
                print("selftest (d): %s starts from %s buckets (want %d), %d tables published" % (n, lens.get(n), want, res.get(n, 0)))
                bad += 1
        print("selftest (d): %s: %d grow/shrink scenarios checked" % (kind, len(sel)))
    print("selftest (d): vacuous geometries:", bad)
    return 1 if bad else 0


def main(argv):
    if argv and argv[0] == "shapes":
        return shapes()
    if argv and argv[0] == "conf":
        return conformance()
    if argv and argv[0] == "matrix":
        return matrix()
    return corrupt_traces()

"""./check setup: build the tools from files on disk (offline) and sanity-check the specifications."""
import glob, os, shutil, subprocess, sys

import lib


def main(argv):
    os.makedirs(lib.BIN, exist_ok=True)
    lib.ensure_instrument()
    print("built tools/instrument")
    # PlusCal translations (generated files are committed; regenerate when pcal sources are newer)
    for src in sorted(glob.glob(os.path.join(lib.SPECS, "*.pcal.tla"))):
        pass
    # every top-level specification must parse
    d = lib.mktemp("verif-sany-")
    for f in glob.glob(os.path.join(lib.SPECS, "*.tla")):
        shutil.copy(f, d)
    # CLHT_Freeze and Trace_CLHT extend modules generated per run (geometry / recorded scenario): instances for the parse
    import clht
    clht.write_model(d, sorted(clht.families())[0], "map")
    open(os.path.join(d, "MC_TraceCLHT.tla"), "w").write(
        "---- MODULE MC_TraceCLHT ----\nEXTENDS CLHT\nBallastKeys == {}\nSilentLabels == {}\n====\n")
    bad = 0
    for f in sorted(glob.glob(os.path.join(d, "*.tla"))):
        p = subprocess.run(["tla-sany", os.path.basename(f)], cwd=d, stdout=subprocess.PIPE, stderr=subprocess.STDOUT, text=True, timeout=300)
        if p.returncode != 0 or "rror" in p.stdout.replace("Semantic errors:\n\n", ""):
            if "*** Errors" in p.stdout or "Fatal" in p.stdout or p.returncode != 0:
                print("SANY: %s does not parse:\n%s" % (os.path.basename(f), p.stdout[-1500:]))
                bad += 1
    if bad:
        return 2
    print("specs parse: %d modules" % len(glob.glob(os.path.join(d, "*.tla"))))
    # a scratch build of the current working tree must succeed
    sc = lib.Scratch()
    print("scratch build ok; access files:", sc.access, "; constants:", sc.info)
    # the trace specifications must reject corrupted recordings (binding is not vacuous)
    import selftest
    return selftest.corrupt_traces()
